#!/venv/bin/python
"""Run the repository's pinned baseline (guard OFF) and compare with BASELINE.json.

usage: tools/baseline.py [repo_dir]   (default /repo)
Exit 0 iff every test id in BASELINE.json:stable_pass passes.
"""
import json, os, subprocess, sys, tempfile, xml.etree.ElementTree as ET

repo = sys.argv[1] if len(sys.argv) > 1 else "/repo"
base = json.load(open("/root/.vp/BASELINE.json"))
fd, xml = tempfile.mkstemp(suffix=".junit.xml")
os.close(fd)
env = dict(os.environ)
env.pop("COMPWA_AMPFORM_VERIF", None)
if repo != "/repo":
    env["PYTHONPATH"] = f"{repo}/src"
cmd = ["/venv/bin/python", "-m", "pytest", "-ra", "-q", "-p", "no:cacheprovider", "--timeout=900",
       "--continue-on-collection-errors", f"--junitxml={xml}", "-n", os.environ.get("BASELINE_N", "8")]
r = subprocess.run(cmd, cwd=repo, env=env, capture_output=True, text=True)
print(r.stdout[-600:])
passed = set()
for tc in ET.parse(xml).getroot().iter("testcase"):
    if not any(ch.tag in {"failure", "error", "skipped"} for ch in tc):
        passed.add(f"{tc.get('classname')}::{tc.get('name')}")
os.unlink(xml)
missing = [t for t in base["stable_pass"] if t not in passed]
print(f"baseline stable_pass={len(base['stable_pass'])} passed_now={len(passed)} missing={len(missing)}")
for m in missing[:40]:
    print("  MISSING", m)
sys.exit(1 if missing else 0)
