#!/bin/sh
# usage: tools/seedeval.sh <seed dir containing X.diff demo_X.py> <X> <checks comma separated> [extra env]
# Confirms a seeded change (demo exits 0 clean / 1 patched, baseline green), then runs the checks on it.
D="$1"; X="$2"; CHECKS="$3"
W=$(mktemp -d /tmp/seedeval-XXXXXX)
git -C /repo worktree add -q --detach "$W/repo" HEAD || exit 3
cp "$D"/*.py "$W"/ 2>/dev/null; cp "$D/demo_$X.py" "$W/demo.py"
( cd "$W/repo" && PYTHONPATH="$W/repo/src" timeout 600 /venv/bin/python "$W/demo.py" >/dev/null 2>&1 ); echo "demo clean exit=$?"
git -C "$W/repo" apply "$D/$X.diff" || { echo "PATCH DOES NOT APPLY"; git -C /repo worktree remove --force "$W/repo"; rm -rf "$W"; exit 3; }
( cd "$W/repo" && PYTHONPATH="$W/repo/src" timeout 600 /venv/bin/python "$W/demo.py" >/dev/null 2>&1 ); echo "demo patched exit=$?"
/venv/bin/python /verif/tools/baseline.py "$W/repo" 2>&1 | tail -1
for c in $(echo "$CHECKS" | tr , ' '); do
  out=$(cd /verif && VP_SRC="$W/repo/src" /venv/bin/python -m vp.run $c --tier ${TIER:-quick} 2>&1); rc=$?
  echo "== $c exit=$rc"; echo "$out" | grep -v WARNING | grep -v KNOWN-FINDING | cut -c1-420 | tail -4
done
git -C /repo worktree remove --force "$W/repo"; rm -rf "$W"
