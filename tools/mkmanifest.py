#!/venv/bin/python
"""Regenerate /verif/MANIFEST.json from the table below and validate it.

Properties without an entry in CHECKS are listed under not_applicable with the reason in
NOT_CLAIMED.
"""
import json
import sys
from pathlib import Path

ROOT = Path(__file__).resolve().parent.parent
PY = "/venv/bin/python"

# property id -> (technique, level text, level note, design ref)
CHECKS = {
    "C18": (
        "Hypothesis descriptor generation vs. an itertools.product reference model (differential), 16 shards",
        "Generated-input search: every PoolSum law in the statement (value, free symbols, cleanup, substitution"
        " commuting, bound indices untouched) is compared with a PoolSum-free reference evaluator on thousands of"
        " generated summands/pools/substitution maps incl. nesting and shadowing; exact rational arithmetic, no"
        " tolerance. Exploration is the right level: the input space is an unbounded grammar.",
        "Trusts sympy's Add/Mul/Pow/subs on PoolSum-free expressions and the reference evaluator in"
        " vp/checks/c18.py. Pool values are rationals; capture-avoiding substitution is not claimed.",
        "DESIGN.md §4 C18",
    ),
}

CHECKS.update({
    "C01": (
        "Hypothesis-generated synthetic reactions x builder configurations; validity predicate over HelicityModel symbols",
        "Generated-input search over hand-built ReactionInfo objects (1-3 isobar topologies with relabelled final states,"
        " arbitrary spins/parities/masses, partial helicity sets, identical particles, both formalisms) x all builder"
        " configuration fields; each model is checked symbolically: expression free symbols are parameter xor kinematic"
        " variable, no amplitude symbol undefined, kinematic variables depend on final-state momenta only.",
        "Trusts the synthetic-reaction generator to follow qrules' conventions (vp/gen/reactions.py) and sympy's"
        " free_symbols/xreplace. Axis-angle cases limited to final spins <= 1 for cost.",
        "DESIGN.md §4 C01",
    ),
    "C08": (
        "Hypothesis-generated momentum batches / angles, cse on/off; numpy invariants of Lorentz transformations",
        "Generated batches of time-like momenta (beta*gamma 1e-6..1e6, axis-aligned and generic directions) and angles;"
        " every identity of the statement is checked on the lambdified arrays in plain numpy with tolerances"
        " K*eps*gamma^2, incl. products through the library's einsum code and code-vs-as_explicit agreement.",
        "Trusts numpy linear algebra; momentum exactly at rest (0/0 in the general boost) is outside the domain.",
        "DESIGN.md §4 C08",
    ),
    "C19": (
        "Hypothesis-generated three-body events; 50-digit mpmath geometry oracle vs lambdified DPD angle expressions",
        "Physical Dalitz points by construction (generated events incl. collinear/threshold limits, massless and equal"
        " masses); all 60 defined angle expressions compared with angles computed from the four-momenta, all stated"
        " identities and sum rules, arccos-argument range; the 96-tuple definedness table is enumerated exhaustively.",
        "Trusts mpmath arithmetic and the event generator in vp/ref/dalitz.py; tolerances scale with the measured"
        " Kallen-function cancellation.",
        "DESIGN.md §4 C19",
    ),
    "C20": (
        "Hypothesis-generated events and (sigma1, sigma2) grid points relative to the PDG Dalitz limits; mpmath oracle",
        "Events (sigma3, Kibble <= 0, indicator 1) and bounding-box points placed at drawn distances on both sides of the"
        " PDG limits (indicator iff between limits, else the caller's outside value), Kallen symmetry/factorisation in"
        " doubles, exact rationals and symbolically; integer collinear events exactly on the boundary (Kibble = 0) must give 1.",
        "Points within 1e-9 relative of a limit or below double resolution of the degree-8 Kibble polynomial are"
        " labelled and not asserted either way.",
        "DESIGN.md §4 C20",
    ),
})

CHECKS.update({
    "C02": (
        "Hypothesis-generated synthetic reactions; differential test against an independent helicity-formula evaluator"
        " (factorial-sum Wigner-d / Clebsch-Gordan)",
        "Every generated model (both formalisms, coefficient and helicity-coupling mode, naming flags, identical"
        " particles, multi-topology, Breit-Wigner dynamics) is lambdified the user's way and compared at 3 numeric"
        " points incl. angular boundary values: every chain component against the reference chain amplitude, the"
        " intensity against the incoherent/coherent sum formed by the harness, the I_ components against their groups.",
        "Trusts vp/ref/spin.py (self-tested against sympy), the re-implemented variable naming convention, numpy."
        " The sign of chains with parity-conserving nodes is left to C03.",
        "DESIGN.md §4 C02",
    ),
    "C03": (
        "Hypothesis-generated parity-conserving reactions; pairwise sign oracle + differential helicity-vs-canonical"
        " formulation with Clebsch-Gordan expansion of drawn LS couplings",
        "For each generated reaction the helicity model's chain signs are read off numerically and (1) compared pairwise"
        " with the product of eta over the reversed nodes, (2) used to derive the helicity coefficients from randomly"
        " drawn LS couplings; the helicity and canonical models must then give equal intensities at generated points.",
        "Trusts vp/ref/spin.py and that canonical coefficients factorise into per-node LS couplings.",
        "DESIGN.md §4 C03",
    ),
    "C11": (
        "Hypothesis-generated (masses, s) relative to the landmarks 0 / pseudo-threshold / threshold; exact-rational"
        " break-up momentum oracle and the relations stated in the property",
        "Tens of thousands of points per run incl. offsets down to 1e-12 from the landmarks, equal/nearly-equal/extreme"
        " mass ratios, asymptotic s and Cauchy sequences across threshold; each stated relation is evaluated through"
        " doit()+lambdify with complex inputs, with error bounds propagated from exact rational arithmetic.",
        "Trusts vp/ref/dyn.py (no sympy/ampform imports). Points whose double-precision evaluation is undetermined are"
        " labelled, not asserted.",
        "DESIGN.md §4 C11",
    ),
    "C12": (
        "Hypothesis-generated L, masses, radii, energies and builder configurations; exact-rational Blatt-Weisskopf"
        " polynomials and an independent Breit-Wigner as reference, plus builder-vs-function differential",
        "Normalisations (Gamma(m0^2)=Gamma0, B_L(1)=1, z^L threshold behaviour, boundedness, polynomial fast path ="
        " Hankel definition) and the numerical identity of every builder (4 flag combinations x 6 phase-space choices,"
        " 3 convenience builders, non-dynamic-with-ff) with the public functions and with a reference implementation.",
        "Trusts vp/ref/dyn.py; the documented ValueError for a missing angular momentum is the contract (skipped).",
        "DESIGN.md §4 C12",
    ),
    "C16": (
        "Hypothesis RuleBasedStateMachine over cache-directory histories (call / crash at byte k / garbage /"
        " harness-scheduled interleaving) under three hash-seed modes; reference = direct doit()",
        "Stateful generated histories on a fresh directory with colliding expression pairs, every write-prefix crash,"
        " garbage files and two interleaved writers, in shards with PYTHONHASHSEED 0 / 7 / unset; plus exhaustive sweeps"
        " over all cut positions as fixed cases. Invariant: every call returns doit() and never raises.",
        "Concurrency is decided for harness-owned interleavings at pickle.dump granularity; real multi-process"
        " scheduling is only sampled (thorough tier). Adversarial pickles whose __eq__ raises are out of scope.",
        "DESIGN.md §4 C16",
    ),
})

CHECKS.update({
    "C07": (
        "Hypothesis-generated isobar topologies (relabelled, renumbered, permuted, several per adapter) x generated"
        " events (rest frame of the decaying particle or boosted to a lab frame); independent numpy boost-and-rotate reference + the library's own Dalitz closed form (differential)",
        "For every registered topology the reference recomputes all invariant masses and helicity angles from the"
        " four-momenta along the documented chain of frames; the lambdified adapter output (cse on/off) is compared as"
        " unit vectors with condition-scaled tolerances, names defined by several topologies must agree, and in"
        " three-body decays the polar angle is compared with formulate_scattering_angle. All topologies x final-state"
        " permutations for n <= 4 are fixed cases.",
        "Trusts vp/ref/frames.py and numpy. Which momentum an angle pair denotes is taken from the docstrings/doctests"
        " (see ASSUMPTIONS in vp/checks/c07.py).",
        "DESIGN.md §4 C07",
    ),
    "C09": (
        "Hypothesis-generated K-matrix configurations x batches of real parameter points in 6 regimes; numpy"
        " unitarity/symmetry invariants",
        "Each case evaluates a formulated T-matrix (non-relativistic and relativistic, 1-3 channels, 1-4 poles, L 0-4,"
        " three phase-space factors) on a batch of 64 (512) generated points incl. near-threshold, near-pole, wide-scale"
        " and degenerate regimes and checks ||S^dagger S - 1|| and ||T - T^T|| with condition-scaled tolerances; one case"
        " in five is a call history over the four parametrize/return_t_hat flag combinations (memo kept or cleared),"
        " asserting the same invariants for T, for sqrt(rho)^* T-hat sqrt(rho) and their agreement (DESIGN.md §17).",
        "Trusts numpy linear algebra and the independent pole-parametrisation reference used only for the condition"
        " estimate (vp/ref/kmat.py).",
        "DESIGN.md §4 C09",
    ),
    "C10": (
        "Hypothesis-generated P-vector/K-matrix configurations (9 phase-space-factor implementations incl. probes) x"
        " point batches; algebraic residual with the library's own parametrisations, structural argument audit, 1x1"
        " Breit-Wigner reduction",
        "Residual of the defining matrix equations with K, P, rho built by the harness from the library's parametrization"
        " methods; traversal of the unevaluated result for foreign phase-space factors / L / radius; numerical reduction"
        " to relativistic_breit_wigner(_with_ff) for one channel and one pole; formulate() calls with opposite flags in"
        " the same process exercise the functools caches.",
        "3-channel RelativisticPVector is not generated (formulate() does not terminate in 25 min). Points on branch"
        " cuts or beyond double resolution of Chew-Mandelstam are labelled, not asserted.",
        "DESIGN.md §4 C10",
    ),
    "C14": (
        "Hypothesis-generated instances of all 45 instantiable expression classes found by package introspection"
        " (nested to depth 3) x substitution maps (symbol, expression and attribute-value keys); metamorphic subs/doit commutation, sibling arguments, equality/hash pairs, rebuild from"
        " args, folded-vs-unfolded code generation",
        "Classes are discovered at run time (new classes get a generic recipe); every law of the statement is an"
        " executable oracle with structural comparison first and a numeric fallback at fixed points.",
        "Trusts sympy's structural equality on library-free expressions and numpy. sympy's own failures on exotic"
        " nestings are skipped and counted.",
        "DESIGN.md §4 C14",
    ),
    "C15": (
        "Hypothesis-generated expression instances (all classes, nested) and formulated models; pickle round trip"
        " (protocols 2-5) in-process and in a fresh interpreter, compared by digest and numerically",
        "Round-trip oracle: loaded == original in class, args, every dataclass field, srepr, hash and assumptions, and"
        " bit-identical numeric evaluation; a long-lived helper interpreter per shard performs the cross-process load.",
        "Trusts pickle and the digest function in vp/checks/c15.py.",
        "DESIGN.md §4 C15",
    ),
})

CHECKS.update({
    "C04": (
        "Hypothesis-generated reactions with complete helicity sets x generated events x generated rotations;"
        " metamorphic relation I(kin(R p)) = I(kin(p)) evaluated through lambdified kinematics and intensity",
        "Single-topology reactions with any alignment, multi-topology reactions with spinless final state or with an"
        " alignment; 8 events per case rotated by drawn Euler angles (incl. axis rotations and pi) with random complex"
        " couplings and optional Breit-Wigner dynamics; the statement's premise (every projection of every outer state"
        " present) is checked per case.",
        "Trusts the numpy event generator and rotation; configurations covered by the open findings F4/F4b/F4c are"
        " counted and excluded by structural predicates (vp/checks/c04.py), everything else is asserted.",
        "DESIGN.md §4 C04",
    ),
    "C05": (
        "Hypothesis-generated single-topology reactions; differential comparison of the unaligned model with the"
        " axis-angle / DPD(1,2,3) model on the same events and couplings; exhaustive create_spin_range enumeration",
        "One aligned model per case is formulated and evaluated next to the unaligned model of the same reaction on 8"
        " generated events; formulation must succeed for every generated spin/mass incl. massless spin 1/2;"
        " create_spin_range is enumerated for all spins 0..5 x no_zero_spin as fixed cases.",
        "Equality is asserted only under the statement's premise (complete helicity sets); a massless particle below a"
        " resonance under axis-angle is labelled undefined_by_construction.",
        "DESIGN.md §4 C05",
    ),
    "C06": (
        "Hypothesis RuleBasedStateMachine over (configure | assign dynamics | permute topologies | formulate) histories"
        " on three builders; oracle = digest of the same (reaction, configuration) formulated in a forked fresh process"
        " image under 4 PYTHONHASHSEED values",
        "History invariant after every formulate: identical digest (all six attributes incl. dictionary order) when"
        " formulated twice and when formulated from scratch in a fresh process under hash seeds 0, 1, 4242, random.",
        "Fresh process = fork of a process that only imported ampform (vp/forkserver.py). Hash seeds are sampled at four"
        " values; thread interleavings are not generated (builders are driven from one thread, interleaved by rules).",
        "DESIGN.md §4 C06",
    ),
})

CHECKS.update({
    "C13": (
        "Hypothesis RuleBasedStateMachine over dynamics-assignment histories (name / Particle / (transition,node) /"
        " TwoBodyDecay / deprecated set_dynamics, public builders + probe builder; builder-configuration rules) against a harness-side selection"
        " model; structural differential of chain components",
        "After each formulate every chain component must equal the dynamics-free component times the product of the"
        " modelled builder on that node's own variables (derived from the topology by harness code); probe atoms must"
        " carry the masses of the chain they multiply and be present in every (also symmetrised) chain; defaults must"
        " equal the particle's tabulated values.",
        "Trusts the public builder functions as callables (they are applied by the harness to harness-derived variable"
        " sets; their own numerics are C12's subject) and sympy structural equality with a numeric fallback.",
        "DESIGN.md §4 C13",
    ),
    "C17": (
        "Hypothesis-generated models x 1-3 successive rename maps (fresh / merge / swap / chain / kinematic variable /"
        " unknown / empty); metamorphic oracle: every attribute equals the original with the induced symbol map applied,"
        " original unchanged, C01 predicate on the result, numeric intensity equality",
        "Expected attributes are computed by harness code with sympy xreplace on the original model; the original's"
        " digest is compared before/after; the renamed and the original expression are lambdified and compared at 3"
        " random points with carried-over values (merged parameters share their value).",
        "Merges are generated between parameters of equal assumptions (documented use); parameter<->kinematic merges"
        " only assert that nothing raises.",
        "DESIGN.md §4 C17",
    ),
})

NOT_CLAIMED: dict[str, str] = {}
DEFAULT_REASON = "check not built yet in this round (planned: DESIGN.md §4); no verdict is claimed"


def main() -> int:
    props = [json.loads(line) for line in (ROOT / "properties.jsonl").read_text().splitlines() if line.strip()]
    checks = []
    not_applicable = []
    for p in props:
        pid = p["id"]
        if pid in CHECKS:
            technique, text, note, ref = CHECKS[pid]
            checks.append({
                "property_id": pid,
                "quick_cmd": f"{PY} -m vp.run {pid} --tier quick",
                "thorough_cmd": f"{PY} -m vp.run {pid} --tier thorough",
                "evidence_file": f"/verif/evidence/{pid}.json",
                "replay_cmd_template": f"{PY} -m vp.run {pid} --replay {{path}}",
                "engine": "vp-hypothesis",
                "level_claimed": {"category": "exploration", "text": text, "design_ref": ref},
                "level_note": note,
                "technique": technique,
            })
        else:
            not_applicable.append({"property_id": pid, "reason": NOT_CLAIMED.get(pid, DEFAULT_REASON)})
    manifest = {
        "version": 1,
        "setup_cmd": "sh /verif/tools/setup.sh",
        "hooks": {
            "guard": "COMPWA_AMPFORM_VERIF",
            "enable": "no hooks are needed: every observation point is public API; checks import /repo/src"
            " (editable install) in fresh processes",
            "baseline_off_cmd": "cd /repo && /venv/bin/python -m pytest -ra -q -p no:cacheprovider --timeout=900"
            " --continue-on-collection-errors",
            "source_commits": [],
            "add_only": True,
        },
        "engines": [
            {
                "name": "vp-hypothesis",
                "path": "/verif/vp",
                "serves_properties": sorted(CHECKS),
                "kind_free_text": "Hypothesis 6.168 strategies / rule-based state machines generating JSON case"
                " descriptors, 16 seeded shard processes, explicit oracles (reference models, round trips,"
                " differential and metamorphic relations), descriptor replay files",
            }
        ],
        "checks": checks,
        "not_applicable": not_applicable,
        "notes": "All checks: exit 0 = held on everything explored (KNOWN-FINDING lines for findings listed in"
        " /verif/known_findings.jsonl), exit 1 + VIOLATION line = violation, exit 2 = harness error (no verdict)."
        " VERIF_SEED selects the Hypothesis seeds (seed*1000+shard). VP_SRC=<dir> tests another source tree.",
    }
    out = ROOT / "MANIFEST.json"
    out.write_text(json.dumps(manifest, indent=1) + "\n")
    try:
        import jsonschema

        schema = json.load(open("/root/.vp/MANIFEST.schema.json"))
        jsonschema.validate(manifest, schema)
        print(f"MANIFEST.json valid: {len(checks)} checks, {len(not_applicable)} not claimed")
    except ImportError:
        print("jsonschema not available; not validated")
    return 0


if __name__ == "__main__":
    sys.exit(main())
