#!/venv/bin/python
"""Run checks against a seeded change without touching /repo.

usage: tools/seedcheck.py <patch.diff> <Cxx>[,<Cyy>...] [--tier quick] [--seed N] [--baseline]

Copies /repo/src (and tests for --baseline) to a scratch directory, applies the patch there,
runs the named checks with VP_SRC pointing at the copy, prints each verdict, removes the copy.
"""
import argparse
import os
import shutil
import subprocess
import sys
import tempfile

ap = argparse.ArgumentParser()
ap.add_argument("patch")
ap.add_argument("checks")
ap.add_argument("--tier", default="quick")
ap.add_argument("--seed", default="1")
ap.add_argument("--baseline", action="store_true")
ap.add_argument("--scale", default=None)
args = ap.parse_args()

work = tempfile.mkdtemp(prefix="mutrun-", dir="/tmp")
try:
    subprocess.run(["git", "-C", "/repo", "worktree", "add", "-q", "--detach", f"{work}/repo", "HEAD"], check=True)
    r = subprocess.run(["git", "-C", f"{work}/repo", "apply", os.path.abspath(args.patch)], capture_output=True, text=True)
    if r.returncode != 0:
        print("PATCH DOES NOT APPLY:", r.stderr[:500])
        sys.exit(3)
    if args.baseline:
        b = subprocess.run(["/venv/bin/python", "/verif/tools/baseline.py", f"{work}/repo"], capture_output=True, text=True)
        print("baseline:", b.stdout.strip().splitlines()[-1] if b.stdout.strip() else b.stderr[-300:])
    env = dict(os.environ, VP_SRC=f"{work}/repo/src", VERIF_SEED=args.seed)
    if args.scale:
        env["VP_SCALE"] = args.scale
    for check in args.checks.split(","):
        p = subprocess.run(
            ["/venv/bin/python", "-m", "vp.run", check, "--tier", args.tier], cwd="/verif", env=env, capture_output=True, text=True
        )
        lines = [ln for ln in p.stdout.splitlines() if not ln.startswith("KNOWN-FINDING") and "WARNING" not in ln]
        verdict = {0: "NOT DETECTED (exit 0)", 1: "DETECTED (exit 1)", 2: "HARNESS ERROR (exit 2)"}.get(p.returncode, f"exit {p.returncode}")
        print(f"== {check}: {verdict}")
        for ln in lines[-4:]:
            print("   ", ln[:400])
        if p.returncode == 2:
            print(p.stderr[-800:])
finally:
    subprocess.run(["git", "-C", "/repo", "worktree", "remove", "--force", f"{work}/repo"], check=False)
    shutil.rmtree(work, ignore_errors=True)
