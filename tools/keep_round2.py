#!/venv/bin/python
"""Store confirmed round-2/3 seeded changes (SEEDROUND=3 for round 3: ids -E/-F): tools/keep_round2.py Cxx:A:"<verdict>" ...

Reads /tmp/seed2-Cxx/seed/{A,B}.diff, demo_{A,B}.py, helper modules and notes.md (for the
'Trigger'/'Needed' bullet) and writes /verif/seeded/Cxx-C (from A) or Cxx-D (from B)."""
import json
import os
import re
import shutil
import sys
from pathlib import Path

ROUND = int(os.environ.get("SEEDROUND", "2"))
SUFFIX = {2: ("C", "D"), 3: ("E", "F"), 4: ("G", "H"), 5: ("I", "J")}[ROUND]

for spec in sys.argv[1:]:
    prop, x, verdict = spec.split(":", 2)
    src = Path(f"/tmp/seed{ROUND}-{prop}/seed")
    sid = f"{prop}-{SUFFIX[0] if x == 'A' else SUFFIX[1]}"
    dst = Path(f"/verif/seeded/{sid}")
    dst.mkdir(parents=True, exist_ok=True)
    shutil.copy(src / f"{x}.diff", dst / "patch.diff")
    shutil.copy(src / f"demo_{x}.py", dst / "demo.py")
    for f in src.glob("*.py"):
        if not f.name.startswith("demo_"):
            shutil.copy(f, dst / f.name)
    notes = (src / "notes.md").read_text()
    m = re.search(rf"^##+ *{x}\b.*?(?=^##+ |\Z)", notes, re.S | re.M)
    section = m.group(0) if m else ""
    t = re.search(r"^[*-] *\**(Trigger|Needed|Needs)\**:?(.*?)(?=^[*-] |\Z)", section, re.S | re.M)
    needs = " ".join((t.group(2) if t else section[:400]).split())
    title = " ".join(section.splitlines()[0].lstrip("# ").split()) if section else ""
    json.dump({
        "id": sid, "breaks_property": prop, "round": ROUND, "what": title, "needs_to_manifest": needs,
        "origin": "written by a sub-agent that saw only the property text and a scratch worktree",
        "confirmed": "demo.py exits 0 on the unchanged tree and 1 with patch.diff applied; 302-test baseline green "
                     "with the patch (tools/seedeval.sh)",
        "checks": verdict,
    }, open(dst / "meta.json", "w"), indent=1)
    print(sid, "|", title[:80], "|", needs[:100])
