#!/bin/sh
# usage: tools/sweep.sh "<seeds>" "<checks>" [tier]   -> one line per run; non-zero exits are flagged
SEEDS="${1:-2 3}"; CHECKS="${2:-C01 C02 C03 C04 C05 C06 C07 C08 C09 C10 C11 C12 C13 C14 C15 C16 C17 C18 C19 C20}"; TIER="${3:-quick}"
for s in $SEEDS; do for c in $CHECKS; do
  out=$(VERIF_SEED=$s /venv/bin/python -m vp.run $c --tier $TIER 2>&1 | grep -v WARNING | grep -v KNOWN-FINDING); rc=$?
  echo "seed=$s $(echo "$out" | tail -1)"
  echo "$out" | grep -E "VIOLATION|HARNESS-ERROR|kind=" | cut -c1-600
done; done
