#!/bin/sh
# Offline setup: make sure hypothesis is importable from /venv (the repo's interpreter).
set -e
if ! /venv/bin/python -c "import hypothesis" 2>/dev/null; then
  /venv/bin/pip install --no-index --find-links /opt/veriftools/wheels hypothesis
fi
/venv/bin/python -c "import hypothesis, numpy, sympy, qrules, ampform; print('setup ok: hypothesis', hypothesis.__version__, 'ampform from', ampform.__file__)"
mkdir -p /verif/evidence /verif/replay /verif/.work
