#!/bin/sh
# For every /verif/seeded/<id>: demo.py must exit 0 on the unchanged tree and 1 with patch.diff applied.
W=$(mktemp -d /tmp/seedver-XXXXXX); git -C /repo worktree add -q --detach "$W/repo" HEAD || exit 3
for d in /verif/seeded/${1:-*}; do
  id=$(basename $d); cp $d/*.py "$W"/
  ( cd "$W/repo" && PYTHONPATH="$W/repo/src" timeout 900 /venv/bin/python "$W/demo.py" >/dev/null 2>&1 ); c=$?
  git -C "$W/repo" apply "$d/patch.diff" 2>/dev/null || { echo "$id PATCH DOES NOT APPLY"; continue; }
  ( cd "$W/repo" && PYTHONPATH="$W/repo/src" timeout 900 /venv/bin/python "$W/demo.py" >/dev/null 2>&1 ); p=$?
  git -C "$W/repo" checkout -q -- . ; rm -f "$W"/*.py
  echo "$id clean=$c patched=$p"
done
git -C /repo worktree remove --force "$W/repo"; rm -rf "$W"
