#!/bin/sh
# usage: tools/keepseed.sh <seed dir> <X> <id> <property> "<needs>" "<detected by / verdict>"
D="$1"; X="$2"; ID="$3"; PROP="$4"; NEEDS="$5"; VERDICT="$6"
mkdir -p /verif/seeded/$ID
cp "$D/$X.diff" /verif/seeded/$ID/patch.diff
cp "$D/demo_$X.py" /verif/seeded/$ID/demo.py
for f in "$D"/*.py; do case "$(basename $f)" in demo_*) ;; *) cp "$f" /verif/seeded/$ID/ ;; esac; done
/venv/bin/python - "$ID" "$PROP" "$NEEDS" "$VERDICT" <<'PY'
import json,sys
i,p,n,v=sys.argv[1:5]
json.dump({"id":i,"breaks_property":p,"needs_to_manifest":n,"origin":"written by a sub-agent that saw only the property text and a scratch worktree",
 "confirmed":"demo.py exits 0 on the unchanged tree and 1 with patch.diff applied; 302-test baseline green with the patch (tools/seedeval.sh)",
 "checks":v}, open(f"/verif/seeded/{i}/meta.json","w"), indent=1)
PY
