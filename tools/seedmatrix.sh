#!/bin/sh
# Re-run the detection matrix: every seeded change against the checks expected to see it.
# usage: tools/seedmatrix.sh [ids...]   (default: all)   output: one line per (seed, check)
table="C01-A:C01 C01-B:C01,C06 C02-A:C02,C13 C02-B:C02,C13 C03-A:C03 C03-B:C03,C06 C04-A:C04,C02 C04-B:C04 C05-A:C05 C05-B:C05 C06-A:C06 C06-B:C06 C07-A:C07 C07-B:C07 C08-A:C08 C08-B:C08 C09-A:C09 C09-B:C09,C10 C10-A:C10 C10-B:C10 C11-A:C11 C11-B:C11 C12-A:C12 C12-B:C12 C13-A:C13 C13-B:C13,C02 C14-A:C14 C14-B:C14 C15-A:C15 C15-B:C15 C16-A:C16 C16-B:C16 C17-A:C17 C17-B:C17 C18-A:C18 C18-B:C18 C19-A:C19 C19-B:C19 C20-A:C20 C20-B:C20"
want="$*"
for entry in $table; do
  id=${entry%%:*}; checks=${entry#*:}
  if [ -n "$want" ]; then case " $want " in *" $id "*) ;; *) continue;; esac; fi
  /venv/bin/python /verif/tools/seedcheck.py /verif/seeded/$id/patch.diff $checks 2>&1 | grep "^== " | sed "s/^== /$id /"
done
