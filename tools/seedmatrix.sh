#!/bin/sh
# Re-run the detection matrix: every seeded change against the checks expected to see it.
# usage: tools/seedmatrix.sh [ids...]   (default: all)   output: one line per (seed, check)
# ids ending in -C/-D are round 2; every seed directory not listed here is run against its own property
table="C01-A:C01 C01-B:C01,C06 C02-A:C02,C13 C02-B:C02,C13 C03-A:C03 C03-B:C03,C06 C04-A:C04,C02 C04-B:C04 C05-A:C05 C05-B:C05 C06-A:C06 C06-B:C06 C07-A:C07 C07-B:C07 C08-A:C08 C08-B:C08 C09-A:C09 C09-B:C09,C10 C10-A:C10 C10-B:C10 C11-A:C11 C11-B:C11 C12-A:C12 C12-B:C12 C13-A:C13 C13-B:C13,C02 C14-A:C14 C14-B:C14 C15-A:C15 C15-B:C15 C16-A:C16 C16-B:C16 C17-A:C17 C17-B:C17 C18-A:C18 C18-B:C18 C19-A:C19 C19-B:C19 C20-A:C20 C20-B:C20 C01-D:C01 C03-C:C03 C03-D:C03 C04-C:C04 C04-D:C04 C05-C:C05 C05-D:C05 C06-C:C06 C06-D:C06 C07-C:C07 C07-D:C07 C08-C:C08 C08-D:C08 C09-C:C09 C09-D:C09 C10-C:C10 C10-D:C10 C11-C:C11 C11-D:C11 C12-C:C12 C12-D:C12 C14-D:C14 C15-C:C15 C15-D:C15 C16-C:C16 C16-D:C16 C17-C:C17 C17-D:C17 C18-C:C18 C18-D:C18 C19-C:C19 C19-D:C19 C20-C:C20 C20-D:C20"
want="$*"
for entry in $table; do
  id=${entry%%:*}; checks=${entry#*:}
  if [ -n "$want" ]; then case " $want " in *" $id "*) ;; *) continue;; esac; fi
  /venv/bin/python /verif/tools/seedcheck.py /verif/seeded/$id/patch.diff $checks 2>&1 | grep "^== " | sed "s/^== /$id /"
done
