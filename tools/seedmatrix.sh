#!/bin/sh
# Re-run the detection matrix: every seeded change against the checks expected to see it.
# usage: tools/seedmatrix.sh [ids...]   (default: all)   output: one line per (seed, check)
# Every /verif/seeded/<id> is run against the quick check of its own property (the id's first three characters);
# `extra` lists further checks that also report it.  Ids ending in -A/-B are round 1, -C/-D round 2, -E/-F round 3.
extra="C01-B:C06 C02-A:C13 C02-B:C13 C03-B:C06 C04-A:C02 C09-B:C10 C13-B:C02 C09-C:C10 C09-D:C10 C07-D:C19"
want="$*"
for d in /verif/seeded/C*; do
  id=$(basename $d); checks=$(echo $id | cut -c1-3)
  for e in $extra; do [ "${e%%:*}" = "$id" ] && checks="$checks,${e#*:}"; done
  if [ -n "$want" ]; then case " $want " in *" $id "*) ;; *) continue;; esac; fi
  /venv/bin/python /verif/tools/seedcheck.py $d/patch.diff $checks 2>&1 | grep "^== " | sed "s/^== /$id /"
done
