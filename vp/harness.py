"""Common machinery: case execution, sharding, seeding, evidence, known findings.

A *check module* (``vp.checks.cNN``) provides

``PROPERTY``      the property id
``RULE``          text: how cases are generated and what makes one non-trivial
``ASSUMPTIONS``   list of strings
``BUDGET``        ``{"quick": {...}, "thorough": {...}}`` with keys ``examples``
                  (total number of generated cases), ``shards``, ``cap_s`` (wall-clock cap
                  per shard: reaching it makes the remainder *inconclusive*, never a
                  violation) and optionally ``shrink_calls``
``strategy(tier)``  Hypothesis strategy of JSON-serialisable *descriptors*, **or**
``machine(tier, report)``  a Hypothesis ``RuleBasedStateMachine`` class; the machine calls
                  ``report(desc)`` from ``teardown`` with the operation list it executed
``run_case(desc)``  pure function of (descriptor, code under test) returning a `Result`
``fixed_cases(tier)``  optional list of descriptors that are always executed (witnesses
                  of findings, regression cases)

Only ``run_case`` talks to ampform.  Everything Hypothesis generates is a descriptor, so
a failing case is shrunk as a whole, the replay file *is* the descriptor, and ``--replay``
bypasses Hypothesis.
"""

from __future__ import annotations

import hashlib
import importlib
import json
import math
import os
import subprocess
import sys
import tempfile
import time
import traceback
from dataclasses import dataclass, field
from pathlib import Path
from typing import Any

ROOT = Path(__file__).resolve().parent.parent
EVIDENCE_DIR = ROOT / "evidence"
REPLAY_DIR = ROOT / "replay"
KNOWN_FINDINGS = ROOT / "known_findings.jsonl"
REPO_SRC = os.environ.get("VP_SRC", "/repo/src")
PYTHON = sys.executable


# --------------------------------------------------------------------------- results
@dataclass
class Result:
    status: str  # "ok" | "skip" | "violation"
    nontrivial: bool = False
    labels: list[str] = field(default_factory=list)
    kind: str = ""  # violation bucket / skip reason
    detail: dict[str, Any] = field(default_factory=dict)

    def to_json(self) -> dict:
        return {
            "status": self.status,
            "nontrivial": self.nontrivial,
            "labels": self.labels,
            "kind": self.kind,
            "detail": _jsonable(self.detail),
        }


def ok(nontrivial: bool = False, labels=(), **detail) -> Result:
    return Result("ok", nontrivial, list(labels), "", dict(detail))


def skip(reason: str, labels=(), **detail) -> Result:
    return Result("skip", False, list(labels), reason, dict(detail))


def violation(kind: str, nontrivial: bool = True, labels=(), **detail) -> Result:
    return Result("violation", nontrivial, list(labels), kind, dict(detail))


class Violation(Exception):
    """Raised inside the Hypothesis test so that the case is shrunk."""


class UnderTestError(Exception):
    """An exception escaped from the code under test where the property forbids it."""

    def __init__(self, label: str, exc: BaseException) -> None:
        super().__init__(f"{label}: {type(exc).__name__}: {exc}")
        self.label = label
        self.exc = exc
        self.exc_type = type(exc).__name__
        self.frame = innermost_frame(exc)


def _rss_mb() -> float:
    try:
        with open("/proc/self/statm") as f:
            return int(f.read().split()[1]) * os.sysconf("SC_PAGE_SIZE") / 1e6
    except (OSError, ValueError, IndexError):
        return 0.0


class CaseTimeout(BaseException):
    """The per-case wall-clock budget ran out: the case is inconclusive (skipped)."""


class CaseTooLarge(CaseTimeout):
    """The case outgrew the per-shard memory budget: inconclusive (skipped), like a timeout."""


CASE_RSS_MB = float(os.environ.get("VP_CASE_RSS_MB", "3000"))  # 16 shards must fit into the machine together


class case_timeout:  # noqa: N801
    """Context manager: raise `CaseTimeout` in the main thread after `seconds`, `CaseTooLarge` when the resident
    set of the process exceeds CASE_RSS_MB (checked once per second)."""

    def __init__(self, seconds: float) -> None:
        self.seconds = seconds
        self.active = False

    def __enter__(self):
        import signal  # noqa: PLC0415
        import threading  # noqa: PLC0415

        if self.seconds > 0 and threading.current_thread() is threading.main_thread():
            deadline = time.time() + self.seconds

            def handler(signum, frame):
                if time.time() >= deadline:
                    raise CaseTimeout
                if _rss_mb() > CASE_RSS_MB:
                    raise CaseTooLarge

            self.old = signal.signal(signal.SIGALRM, handler)
            signal.setitimer(signal.ITIMER_REAL, min(1.0, self.seconds), 1.0)
            self.active = True
        return self

    def __exit__(self, *exc):
        import signal  # noqa: PLC0415

        if self.active:
            signal.setitimer(signal.ITIMER_REAL, 0)
            signal.signal(signal.SIGALRM, self.old)
        return False


def innermost_frame(exc: BaseException) -> str:
    """`file:function` of the innermost frame inside the ampform package (or overall)."""
    tb = traceback.extract_tb(exc.__traceback__)
    chosen = None
    for fr in tb:
        if "ampform" in fr.filename and "/verif/" not in fr.filename:
            chosen = fr
    if chosen is None and tb:
        chosen = tb[-1]
    if chosen is None:
        return "?"
    name = chosen.filename
    if "/ampform/" in name:
        name = "ampform/" + name.split("/ampform/", 1)[1]
    return f"{name}:{chosen.name}"


def under_test(label: str, fn, *args, allowed: tuple = (), **kwargs):
    """Call code under test; exceptions other than `allowed` become `UnderTestError`.

    `allowed` exceptions propagate unchanged (the caller treats them as the documented
    "raises on invalid input" contract).
    """
    try:
        return fn(*args, **kwargs)
    except allowed:
        raise
    except Exception as exc:  # noqa: BLE001
        raise UnderTestError(label, exc) from exc


def _jsonable(obj):
    if isinstance(obj, dict):
        return {str(k): _jsonable(v) for k, v in obj.items()}
    if isinstance(obj, (list, tuple, set, frozenset)):
        return [_jsonable(v) for v in obj]
    if isinstance(obj, (str, int, bool)) or obj is None:
        return obj
    if isinstance(obj, float):
        if math.isnan(obj) or math.isinf(obj):
            return repr(obj)
        return obj
    if isinstance(obj, complex):
        return repr(obj)
    try:
        import numpy as np  # noqa: PLC0415

        if isinstance(obj, np.generic):
            return _jsonable(obj.item())
        if isinstance(obj, np.ndarray):
            return _jsonable(obj.tolist())
    except ImportError:  # pragma: no cover
        pass
    return str(obj)


def canonical(desc) -> str:
    return json.dumps(_jsonable(desc), sort_keys=True, separators=(",", ":"))


def dhash(desc) -> str:
    return hashlib.sha256(canonical(desc).encode()).hexdigest()[:16]


# --------------------------------------------------------------------------- known findings
def load_known(pid: str) -> list[dict]:
    out = []
    if KNOWN_FINDINGS.exists():
        for line in KNOWN_FINDINGS.read_text().splitlines():
            line = line.strip()
            if not line or line.startswith("#"):
                continue
            rec = json.loads(line)
            if rec.get("property") == pid:
                out.append(rec)
    return out


def match_known(res: Result, findings: list[dict]) -> dict | None:
    """A violation is *known* iff an open finding has the same kind and every key of its
    ``match`` dict equals the corresponding entry of the violation detail."""
    for f in findings:
        if f.get("status") != "open":
            continue
        if f.get("kind") != res.kind:
            continue
        want = f.get("match", {})
        if all(_jsonable(res.detail.get(k)) == v for k, v in want.items()):
            return f
    return None


# --------------------------------------------------------------------------- shard side
RSS_LIMIT_MB = float(os.environ.get("VP_RSS_MB", "2500"))
_MEMORY_GUARD = {"cleared": 0, "peak_mb": 0.0}


def memory_guard() -> None:
    """Long campaigns on large expressions grow without bound through two caches that are not part of anything a
    property speaks about: sympy's global expression cache and the source text of every lambdified function
    that `linecache` keeps.  Above RSS_LIMIT_MB both are emptied (never inside a case)."""
    rss = _rss_mb()
    _MEMORY_GUARD["peak_mb"] = max(_MEMORY_GUARD["peak_mb"], rss)
    if rss <= RSS_LIMIT_MB:
        return
    import gc  # noqa: PLC0415
    import linecache  # noqa: PLC0415

    try:
        from sympy.core.cache import clear_cache  # noqa: PLC0415

        clear_cache()
    except Exception:  # noqa: BLE001, S110
        pass
    for key in [k for k in linecache.cache if k.startswith("<lambdifygenerated")]:
        del linecache.cache[key]
    gc.collect()
    _MEMORY_GUARD["cleared"] += 1


class Collector:
    def __init__(self, mod, tier: str, budget: dict) -> None:
        self.mod = mod
        self.tier = tier
        self.findings = load_known(mod.PROPERTY)
        self.t0 = time.time()
        self.cap_s = float(os.environ.get("VP_CAP_S", budget.get("cap_s", 600)))
        self.shrink_calls = int(budget.get("shrink_calls", 60))
        self.shrink_s = float(budget.get("shrink_s", 120))
        self.case_timeout_s = float(os.environ.get("VP_CASE_TIMEOUT_S", budget.get("case_timeout_s", 120)))
        self.evaluations = 0
        self.ok = 0
        self.skipped: dict[str, int] = {}
        self.labels: dict[str, int] = {}
        self.nontrivial: set[str] = set()
        self.seen: set[str] = set()
        self.samples: list[dict] = []
        self.inconclusive = 0
        self.excluded_known: dict[str, int] = {}
        self.failures: list[tuple[Any, Result]] = []
        self.fixed_failures: list[tuple[Any, Result]] = []
        self.first_fail_t: float | None = None
        self.after_fail_calls = 0
        self.errors: list[str] = []

    # one case -----------------------------------------------------------
    def execute(self, desc, *, source: str = "generated") -> Result | None:
        """Run a case, record it, return the result (None = not run: budget)."""
        if source == "generated":
            if time.time() - self.t0 > self.cap_s and self.first_fail_t is None:
                self.inconclusive += 1
                return None
            if self.first_fail_t is not None:
                self.after_fail_calls += 1
                if (
                    self.after_fail_calls > self.shrink_calls
                    or time.time() - self.first_fail_t > self.shrink_s
                ):
                    return None
        if source == "generated" and _rss_mb() > CASE_RSS_MB:
            memory_guard()
            if _rss_mb() > CASE_RSS_MB:  # what an earlier case left behind cannot be returned: stop running cases
                self.inconclusive += 1
                return None
        try:
            with case_timeout(self.case_timeout_s):
                res = self.mod.run_case(desc)
        except CaseTooLarge:
            res = skip("case_memory_limit", limit_mb=CASE_RSS_MB)
        except CaseTimeout:
            res = skip("case_timeout", timeout_s=self.case_timeout_s)
        except UnderTestError as exc:
            res = violation(
                f"raises:{exc.label}",
                exc_type=exc.exc_type,
                frame=exc.frame,
                message=str(exc.exc)[:300],
            )
        if not isinstance(res, Result):
            msg = f"run_case returned {type(res).__name__}"
            raise TypeError(msg)
        self.record(desc, res)
        return res

    def record(self, desc, res: Result) -> None:
        memory_guard()
        self.evaluations += 1
        h = dhash(desc)
        for lab in res.labels:
            self.labels[lab] = self.labels.get(lab, 0) + 1
        if res.status == "skip":
            self.skipped[res.kind] = self.skipped.get(res.kind, 0) + 1
        elif res.status == "ok":
            self.ok += 1
        if res.nontrivial and res.status != "skip":
            self.nontrivial.add(h)
        if h not in self.seen:
            self.seen.add(h)
            want = 3 if res.nontrivial else 1
            have = sum(1 for s in self.samples if s["nontrivial"] == res.nontrivial)
            if res.status == "ok" and have < want:
                self.samples.append({
                    "case": _jsonable(desc),
                    "labels": res.labels,
                    "nontrivial": res.nontrivial,
                    "observed": _jsonable(res.detail),
                })

    def judge(self, desc, res: Result | None) -> bool:
        """True if the case must be reported as failing to Hypothesis."""
        if res is None or res.status != "violation":
            return False
        known = match_known(res, self.findings)
        if known is not None:
            key = known["key"]
            self.excluded_known[key] = self.excluded_known.get(key, 0) + 1
            return False
        if self.first_fail_t is None:
            self.first_fail_t = time.time()
        self.failures.append((desc, res))
        return True


def load_check(pid: str):
    return importlib.import_module(f"vp.checks.{pid.lower()}")


def _settings(n: int, stateful_steps: int | None = None):
    from hypothesis import HealthCheck, Phase, settings  # noqa: PLC0415

    kw = dict(
        max_examples=max(1, n),
        database=None,
        deadline=None,
        derandomize=False,
        report_multiple_bugs=False,
        suppress_health_check=[
            HealthCheck.too_slow,
            HealthCheck.data_too_large,
            HealthCheck.large_base_example,
        ],
        phases=[Phase.explicit, Phase.generate, Phase.shrink],
        print_blob=False,
    )
    if stateful_steps is not None:
        kw["stateful_step_count"] = stateful_steps
    return settings(**kw)


def shard_main(argv: list[str]) -> int:
    pid, tier, k, nshards, seed_s, out = argv
    k, nshards, seed_v = int(k), int(nshards), int(seed_s)
    if REPO_SRC not in sys.path:
        sys.path.insert(0, REPO_SRC)
    import warnings  # noqa: PLC0415

    warnings.filterwarnings("ignore")
    import logging  # noqa: PLC0415

    logging.disable(logging.CRITICAL)
    import hypothesis  # noqa: PLC0415
    from hypothesis import given  # noqa: PLC0415

    mod = load_check(pid)
    budget = dict(mod.BUDGET[tier])
    scale = float(os.environ.get("VP_SCALE", "1"))
    total = max(nshards, int(budget["examples"] * scale))
    n = math.ceil(total / nshards)
    col = Collector(mod, tier, budget)
    status = "done"
    err = None
    try:
        fixed = list(getattr(mod, "fixed_cases", lambda t: [])(tier))
        # witnesses of recorded findings are always replayed: an open one shows that the finding
        # still reproduces, a fixed one is a regression case
        seen_fixed = {canonical(d) for d in fixed}
        for finding in col.findings:
            witness = finding.get("witness")
            if witness is not None and canonical(witness) not in seen_fixed:
                seen_fixed.add(canonical(witness))
                fixed.append(witness)
        for i, desc in enumerate(fixed):
            if i % nshards != k:
                continue
            res = col.execute(desc, source="fixed")
            if res is not None and res.status == "violation":
                known = match_known(res, col.findings)
                if known is not None:
                    col.excluded_known[known["key"]] = (
                        col.excluded_known.get(known["key"], 0) + 1
                    )
                else:
                    col.fixed_failures.append((desc, res))
        hseed = seed_v * 1000 + k
        if hasattr(mod, "machine"):
            from hypothesis.stateful import run_state_machine_as_test  # noqa: PLC0415

            def report(desc):
                # the machine has executed the history itself and hands over the verdict
                res = desc.pop("_result")
                col.record(desc, res)
                if col.judge(desc, res):
                    raise Violation(res.kind)

            def gate() -> bool:
                """False once the budget is exhausted: the machine then does nothing."""
                if time.time() - col.t0 > col.cap_s and col.first_fail_t is None:
                    col.inconclusive += 1
                    return False
                if col.first_fail_t is not None:
                    col.after_fail_calls += 1
                    if (
                        col.after_fail_calls > col.shrink_calls
                        or time.time() - col.first_fail_t > col.shrink_s
                    ):
                        return False
                return True

            machine = mod.machine(tier, report, gate)
            machine = hypothesis.seed(hseed)(machine)
            try:
                run_state_machine_as_test(
                    machine, settings=_settings(n, budget.get("steps", 12))
                )
            except BaseException as exc:  # noqa: BLE001
                if not col.failures:
                    raise
                del exc
        else:
            strat = mod.strategy(tier)

            @hypothesis.seed(hseed)
            @_settings(n)
            @given(strat)
            def test(desc):
                res = col.execute(desc)
                if col.judge(desc, res):
                    raise Violation(res.kind)

            try:
                test()
            except BaseException as exc:  # noqa: BLE001
                if not col.failures:
                    raise
                del exc
    except BaseException:  # noqa: BLE001
        status = "error"
        err = traceback.format_exc()
    payload = {
        "status": status,
        "error": err,
        "shard": k,
        "evaluations": col.evaluations,
        "ok": col.ok,
        "skipped": col.skipped,
        "labels": col.labels,
        "nontrivial": sorted(col.nontrivial),
        "distinct": len(col.seen),
        "samples": col.samples,
        "inconclusive": col.inconclusive,
        "excluded_known": col.excluded_known,
        "wall_s": time.time() - col.t0,
        "memory": {"peak_rss_mb": round(max(_MEMORY_GUARD["peak_mb"], _rss_mb())), "caches_cleared": _MEMORY_GUARD["cleared"]},
        "failure": None,
        "fixed_failures": [
            {"case": _jsonable(d), "result": r.to_json()} for d, r in col.fixed_failures
        ],
        "src": _ampform_file(),
    }
    if col.failures:
        d, r = col.failures[-1]  # Hypothesis shrinks monotonically: last = smallest
        d0, r0 = col.failures[0]
        payload["failure"] = {
            "case": _jsonable(d),
            "result": r.to_json(),
            "first_case": _jsonable(d0),
            "first_result": r0.to_json(),
            "shrink_calls": col.after_fail_calls,
        }
    Path(out).write_text(json.dumps(payload))
    return 0


def _ampform_file() -> str:
    try:
        import ampform  # noqa: PLC0415

        return str(ampform.__file__)
    except Exception as exc:  # noqa: BLE001
        return f"import failed: {exc}"


# --------------------------------------------------------------------------- parent side
def run_property(pid: str, tier: str, seed: int) -> int:
    t0 = time.time()
    mod = load_check(pid)
    budget = mod.BUDGET[tier]
    nshards = int(os.environ.get("VP_SHARDS", budget.get("shards", 16)))
    findings = load_known(pid)
    work = Path(tempfile.mkdtemp(prefix=f"vp-{pid}-", dir=_workdir()))
    procs = []
    env = dict(os.environ)
    env.setdefault("PYTHONHASHSEED", "0")
    env["PYTHONPATH"] = os.pathsep.join(
        [str(ROOT), REPO_SRC] + [p for p in env.get("PYTHONPATH", "").split(os.pathsep) if p]
    )
    env.setdefault("OMP_NUM_THREADS", "1")
    env.setdefault("OPENBLAS_NUM_THREADS", "1")
    env.setdefault("MKL_NUM_THREADS", "1")
    for k in range(nshards):
        out = work / f"shard{k}.json"
        log = open(work / f"shard{k}.log", "w")  # noqa: SIM115
        shard_env = dict(env)
        if hasattr(mod, "shard_env"):
            shard_env.update(mod.shard_env(k, tier))
        p = subprocess.Popen(
            [PYTHON, "-m", "vp.shard", pid, tier, str(k), str(nshards), str(seed), str(out)],
            cwd=str(ROOT),
            env=shard_env,
            stdout=log,
            stderr=subprocess.STDOUT,
        )
        procs.append((k, p, out, log))
    hard_cap = float(budget.get("cap_s", 600)) * 2 + float(budget.get("shrink_s", 120)) + 120
    shards = []
    harness_errors = []
    for k, p, out, log in procs:
        remaining = max(1.0, hard_cap - (time.time() - t0))
        try:
            p.wait(timeout=remaining)
        except subprocess.TimeoutExpired:
            p.kill()
            p.wait()
            harness_errors.append(f"shard {k}: killed after hard cap {hard_cap:.0f}s")
        log.close()
        if out.exists():
            data = json.loads(out.read_text())
            shards.append(data)
            if data["status"] != "done":
                harness_errors.append(f"shard {k}: {data['error']}")
        elif not any(e.startswith(f"shard {k}:") for e in harness_errors):
            tail = (work / f"shard{k}.log").read_text()[-2000:]
            harness_errors.append(f"shard {k}: no output (exit {p.returncode})\n{tail}")

    # merge --------------------------------------------------------------
    evaluations = sum(s["evaluations"] for s in shards)
    nontrivial = set()
    labels: dict[str, int] = {}
    skipped: dict[str, int] = {}
    excluded: dict[str, int] = {}
    samples = []
    for s in shards:
        nontrivial.update(s["nontrivial"])
        for name, dst in (("labels", labels), ("skipped", skipped), ("excluded_known", excluded)):
            for key, val in s[name].items():
                dst[key] = dst.get(key, 0) + val
    for s in shards:  # round robin: prefer non-trivial samples
        for smp in s["samples"]:
            if smp["nontrivial"] and len(samples) < 4:
                samples.append(smp)
                break
    for s in shards:
        for smp in s["samples"]:
            if not smp["nontrivial"] and len(samples) < 5:
                samples.append(smp)
                break
        if len(samples) >= 5:
            break
    failures = []
    for s in shards:
        if s["failure"]:
            failures.append(s["failure"])
        for ff in s["fixed_failures"]:
            failures.append(ff)
    # one VIOLATION line per distinct bucket (kind), smallest case first
    by_kind: dict[str, dict] = {}
    for f in failures:
        kind = f["result"]["kind"]
        if kind not in by_kind or len(canonical(f["case"])) < len(canonical(by_kind[kind]["case"])):
            by_kind[kind] = f
    lines = []
    for f_known in findings:
        if f_known.get("status") == "open":
            hits = excluded.get(f_known["key"], 0)
            lines.append(
                f"KNOWN-FINDING: property={pid} {f_known['what']}"
                f" [key={f_known['key']} cases_hit_this_run={hits}]"
            )
    replay_paths = []
    for kind, f in sorted(by_kind.items()):
        REPLAY_DIR.joinpath(pid).mkdir(parents=True, exist_ok=True)
        path = REPLAY_DIR / pid / f"{dhash(f['case'])}.json"
        path.write_text(
            json.dumps(
                {"property": pid, "kind": kind, "case": f["case"], "result": f["result"]},
                indent=1,
                sort_keys=True,
            )
        )
        replay_paths.append(str(path))
        lines.append(f"VIOLATION property={pid} replay={path}")
        lines.append(f"  kind={kind} detail={json.dumps(f['result']['detail'])[:600]}")

    srcs = sorted({s["src"] for s in shards})
    evidence = {
        "property_id": pid,
        "tier": tier,
        "seed": seed,
        "level": getattr(mod, "LEVEL", "exploration"),
        "coverage": {
            "evaluations": evaluations,
            "distinct_nontrivial": len(nontrivial),
            "rule": mod.RULE,
            "samples": samples,
            "distinct_cases": sum(s["distinct"] for s in shards),
            "label_histogram": dict(sorted(labels.items())),
            "skipped_by_reason": skipped,
            "excluded_known": excluded,
            "inconclusive_cases_not_run_wall_cap": sum(s["inconclusive"] for s in shards),
            "shards": len(shards),
            "shard_wall_s": [round(s["wall_s"], 1) for s in shards],
            "shard_peak_rss_mb": [s.get("memory", {}).get("peak_rss_mb", 0) for s in shards],
            "shard_cache_clearings": sum(s.get("memory", {}).get("caches_cleared", 0) for s in shards),
            "code_under_test": srcs,
            "exhaustive": bool(getattr(mod, "EXHAUSTIVE", {}).get(tier, False)),
        },
        "assumptions": list(mod.ASSUMPTIONS),
        "wall_s": round(time.time() - t0, 2),
        "violations": len(by_kind),
    }
    if harness_errors:
        evidence["coverage"]["harness_errors"] = [e[:2000] for e in harness_errors]
    # evidence/<id>.json describes runs against /repo only; runs against another source tree
    # (VP_SRC: mutation experiments) are kept apart so that they never end up committed
    evidence_dir = EVIDENCE_DIR if REPO_SRC == "/repo/src" else Path(_workdir()) / "evidence-other-source"
    evidence_dir.mkdir(exist_ok=True)
    (evidence_dir / f"{pid}.json").write_text(json.dumps(evidence, indent=1, sort_keys=True))
    for line in lines:
        print(line)
    print(
        f"{pid} tier={tier} seed={seed} evaluations={evaluations}"
        f" distinct_nontrivial={len(nontrivial)} violations={len(by_kind)}"
        f" excluded_known={sum(excluded.values())} skipped={sum(skipped.values())}"
        f" inconclusive={evidence['coverage']['inconclusive_cases_not_run_wall_cap']}"
        f" wall={evidence['wall_s']}s"
    )
    _cleanup(work)
    for e in harness_errors:
        print("HARNESS-ERROR:", e, file=sys.stderr)
    if by_kind:
        return 1
    if harness_errors:
        return 2
    return 0


def replay(pid: str, path: str) -> int:
    mod = load_check(pid)
    data = json.loads(Path(path).read_text())
    desc = data["case"] if "case" in data else data
    col = Collector(mod, "quick", mod.BUDGET["quick"])
    res = col.execute(desc, source="fixed")
    print(json.dumps(res.to_json(), indent=1))
    if res.status == "violation":
        known = match_known(res, col.findings)
        if known is not None:
            print(f"KNOWN-FINDING: property={pid} {known['what']} [key={known['key']}]")
            return 0
        print(f"VIOLATION property={pid} replay={path}")
        return 1
    return 0


def _workdir() -> str:
    d = ROOT / ".work"
    d.mkdir(exist_ok=True)
    return str(d)


def _cleanup(work: Path) -> None:
    import shutil  # noqa: PLC0415

    if os.environ.get("VP_KEEP"):
        return
    shutil.rmtree(work, ignore_errors=True)
