"""Fresh-process model digests, cheaply.

``python -m vp.forkserver`` imports ampform once and then answers requests (one JSON object
per line on stdin) by *forking*: the child formulates the model in a process image that has
seen nothing but the imports, writes the digest and exits.  Every request therefore sees a
fresh interpreter state (no ``functools.cache`` content, no sympy cache entries from other
models) under the ``PYTHONHASHSEED`` the server was started with.
"""

from __future__ import annotations

import hashlib
import json
import os
import sys


def model_digest(model) -> dict:
    """Order-sensitive digests of the six attributes of a HelicityModel."""
    import sympy as sp  # noqa: PLC0415

    def h(text: str) -> str:
        return hashlib.sha256(text.encode()).hexdigest()[:20]

    def mapping(m, key_fn):
        items = [(key_fn(k), sp.srepr(v) if isinstance(v, sp.Basic) else repr(v)) for k, v in m.items()]
        return {
            "ordered": h(json.dumps(items)),
            "unordered": h(json.dumps(sorted(items))),
            "keys": [k for k, _ in items],
            "n": len(items),
        }

    def srepr_key(k):
        return sp.srepr(k) if isinstance(k, sp.Basic) else repr(k)

    reaction = model.reaction_info
    return {
        "intensity": h(sp.srepr(model.intensity)),
        "amplitudes": mapping(model.amplitudes, srepr_key),
        "parameter_defaults": mapping(model.parameter_defaults, srepr_key),
        "kinematic_variables": mapping(model.kinematic_variables, srepr_key),
        "components": mapping(model.components, str),
        "reaction_info": h(repr(sorted(repr(t) for t in reaction.transitions)) + reaction.formalism),
    }


def formulate_from_request(req: dict) -> dict:
    from vp.gen.config import prepare  # noqa: PLC0415

    prepared = prepare(req["rdesc"], req["config"], relabel=req.get("relabel"))
    if prepared is None:
        return {"error": "no_transitions"}
    model = prepared.builder.formulate()
    if req.get("want") == "pickle":
        import base64  # noqa: PLC0415
        import pickle  # noqa: PLC0415

        return {"pickle": base64.b64encode(pickle.dumps(model, 4)).decode()}
    return model_digest(model)


def main() -> int:
    import logging  # noqa: PLC0415
    import warnings  # noqa: PLC0415

    warnings.filterwarnings("ignore")
    logging.disable(logging.CRITICAL)
    import ampform  # noqa: F401, PLC0415
    import ampform.helicity.align.axisangle  # noqa: F401, PLC0415
    import ampform.helicity.align.dpd  # noqa: F401, PLC0415
    import qrules  # noqa: F401, PLC0415

    import vp.gen.config  # noqa: F401, PLC0415

    out = sys.stdout
    print(json.dumps({"ready": True, "hashseed": os.environ.get("PYTHONHASHSEED"), "src": ampform.__file__}), file=out, flush=True)
    for line in sys.stdin:
        line = line.strip()
        if not line:
            continue
        req = json.loads(line)
        r, w = os.pipe()
        pid = os.fork()
        if pid == 0:  # child: pristine post-import state
            os.close(r)
            try:
                res = formulate_from_request(req)
            except BaseException as exc:  # noqa: BLE001
                res = {"error": f"{type(exc).__name__}: {exc}"}
            with os.fdopen(w, "w") as f:
                f.write(json.dumps(res))
            os._exit(0)
        os.close(w)
        with os.fdopen(r) as f:
            data = f.read()
        os.waitpid(pid, 0)
        print(data or json.dumps({"error": "child died"}), file=out, flush=True)
    return 0


if __name__ == "__main__":
    sys.exit(main())
