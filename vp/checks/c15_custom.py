"""C15 / decorator layouts: classes defined with ``@unevaluated`` outside the library
(vp/gen/custom_classes.py), pickled and compared like the library's own classes."""

from __future__ import annotations

import copy
import pickle

import sympy as sp
from hypothesis import strategies as st

from vp.checks import c15
from vp.harness import ok, under_test, violation

SYMS = ["x", "y", "z", "s_p"]
NUMS = ["1", "2", "1/2", "7/3"]


def _arg():
    return st.one_of(
        st.sampled_from(SYMS).map(lambda n: ["sym", n]), st.sampled_from(NUMS).map(lambda n: ["num", n]),
        st.tuples(st.sampled_from(SYMS), st.sampled_from(NUMS)).map(lambda t: ["mul", t[0], t[1]]),
    )


def _strategy(tier):
    del tier
    return st.one_of(
        st.fixed_dictionaries({"cls": st.just("AttrFirst"), "tag": st.sampled_from(["", "a", "abc", ["a", "b"], []]), "args": st.lists(_arg(), min_size=2, max_size=2)}),
        st.fixed_dictionaries({"cls": st.just("AttrBetween"), "functor": st.sampled_from(["half", "square", "sin", "scale3", "scale5"]),
                               "args": st.lists(_arg(), min_size=1, max_size=2)}),
        st.fixed_dictionaries({"cls": st.just("DampedPhaseSpaceFactor"), "name": st.sampled_from([None, "N", r"\rho_d"]),
                               "args": st.lists(_arg(), min_size=3, max_size=4)}),
        st.fixed_dictionaries({"cls": st.just("WithClassVariables"), "tag": st.sampled_from(["t", "", "abc"]),
                               "args": st.lists(_arg(), min_size=1, max_size=1)}),
        st.fixed_dictionaries({"cls": st.just("DeprecatedPower"), "name": st.sampled_from([None, "N", r"\rho_d"]),
                               "args": st.lists(_arg(), min_size=2, max_size=2)}),
        st.fixed_dictionaries({"cls": st.just("UnevaluatedExpression"), "name": st.sampled_from([None, "N"]),
                               "args": st.lists(_arg(), min_size=0, max_size=2)}),
    ).flatmap(lambda d: st.fixed_dictionaries({**{k: st.just(v) for k, v in d.items()}, "protocol": st.integers(2, 5)}))


def _build_arg(a):
    if a[0] == "sym":
        return sp.Symbol(a[1], positive=(a[1] == "s_p"))
    if a[0] == "num":
        return sp.Rational(a[1])
    return sp.Symbol(a[1]) * sp.Rational(a[2])


def build(desc):
    from vp.gen import custom_classes as cc  # noqa: PLC0415

    args = [_build_arg(a) for a in desc["args"]]
    if desc["cls"] == "AttrFirst":
        return cc.AttrFirst(desc["tag"], *args)
    if desc["cls"] == "AttrBetween":
        if len(args) == 1:
            return cc.AttrBetween(args[0], cc.FUNCTORS[desc["functor"]])
        return cc.AttrBetween(args[0], cc.FUNCTORS[desc["functor"]], args[1])
    if desc["cls"] == "WithClassVariables":
        return cc.WithClassVariables(args[0], tag=desc["tag"]) if desc["tag"] != "t" else cc.WithClassVariables(args[0])
    if desc["cls"] == "DeprecatedPower":
        return cc.DeprecatedPower(*args, name=desc["name"])
    if desc["cls"] == "UnevaluatedExpression":  # the deprecated base class itself (tests/dynamics/test_deprecated.py)
        from ampform.sympy.deprecated import UnevaluatedExpression  # noqa: PLC0415

        return UnevaluatedExpression(*args, name=desc["name"])
    if len(args) == 3:
        return cc.DampedPhaseSpaceFactor(*args, name=desc["name"])
    return cc.DampedPhaseSpaceFactor(*args[:3], name=desc["name"], damping=args[3])


def _plain(value) -> str:
    if callable(value):  # repr of a function contains its address
        return f"{getattr(value, '__module__', '?')}.{getattr(value, '__qualname__', repr(value))}"
    return repr(value)


def _latex(obj) -> str:
    try:
        return sp.latex(obj)
    except Exception as exc:  # noqa: BLE001
        return type(exc).__name__


def fingerprint(obj, extra) -> dict:
    import dataclasses  # noqa: PLC0415

    del extra
    if dataclasses.is_dataclass(obj):
        fields = [[f.name, sp.srepr(getattr(obj, f.name)) if f.metadata.get("sympify") else _plain(getattr(obj, f.name))]
                  for f in dataclasses.fields(obj)]
    else:  # deprecated API: the name lives in a slot
        fields = [["_name", repr(getattr(obj, "_name", "<missing>"))]]
    try:
        unfolded = sp.srepr(obj.doit())
    except Exception as exc:  # noqa: BLE001  (the abstract base has no evaluate)
        unfolded = type(exc).__name__
    return {"cls": type(obj).__name__, "args": sp.srepr(obj.args), "fields": fields, "doit": unfolded, "latex": _latex(obj)}


def _run(desc):
    labels = ["family:custom", f"class:{desc['cls']}"]
    if isinstance(desc.get("tag"), list) or str(desc.get("functor", "")).startswith("scale"):
        labels.append("unhashable_non_sympy_attribute")
    e = under_test("construct", build, desc)
    want = fingerprint(e, None)
    for how, fn in (("pickle", lambda: pickle.loads(pickle.dumps(e, desc["protocol"]))), ("copy", lambda: copy.copy(e)),  # noqa: S301
                    ("deepcopy", lambda: copy.deepcopy(e))):
        loaded = under_test(how, fn)
        got = fingerprint(loaded, None)
        if got != want:
            return violation("loaded_object_differs", True, labels, how=how, keys=[k for k in want if want[k] != got.get(k)],
                             want=want["fields"], got=got.get("fields"))
        if loaded != e or hash(loaded) != hash(e):
            return violation("loaded_object_not_equal", True, labels, how=how)
    answer = c15.fresh_process_fingerprint(pickle.dumps(e, desc["protocol"]), "vp.checks.c15_custom:fingerprint", None)
    if "error" in answer:
        return violation("fresh_process_load_fails", True, labels, error=str(answer["error"])[:300])
    if answer != want:
        return violation("loaded_object_differs", True, labels, how="fresh_process", keys=[k for k in want if want[k] != answer.get(k)])
    return ok(True, labels)


c15.register_family("custom", strategy=_strategy, run=_run, fixed=lambda tier: [], weight=1)
