"""C07 — kinematic variables mean what their names say, in every topology."""

from __future__ import annotations

import functools
import itertools

import numpy as np
import sympy as sp
from hypothesis import strategies as st

from vp.evalmodel import kinematics_function
from vp.gen.events import generate_events
from vp.gen.reactions import attached, children_of, intermediate_edges, make_topology, n_isobar_topologies
from vp.harness import Result, ok, under_test, violation
from vp.ref import frames
from vp.ref.helicity import angle_names

PROPERTY = "C07"
RULE = (
    "Hypothesis draws 1-3 isobar topologies (index into create_isobar_topologies(n), n=2..4 (5 thorough), a permutation"
    " of the final-state ids and a renumbering of the intermediate edges), whether permutate_registered_topologies() is"
    " called, final-state masses (incl. 0), total energy, closeness of the sub-system masses to their thresholds,"
    " axis-aligned decays, cse on/off and an event seed (16 events). Non-trivial: some registered topology has >=2 nodes."
    " Distinct = descriptor hash."
)
ASSUMPTIONS = [
    "five-body topologies are evaluated with cse only (without it the generated numpy source of one deep chain has ~10^8"
    " characters; compiling it needs several GB per process); 2-4 bodies with and without cse",
    "reference: numpy boosts/rotations following the documented chain Bz(|p|/E) Ry(-theta) Rz(-phi) (vp/ref/frames.py)",
    "the momentum an angle pair denotes: both children final -> the named (helicity) child; exactly one child decays ->"
    " that child (doctest theta_0 = Theta(p1+p2)); both decay -> the named child (get_boost_chain_suffix docs)",
    "directions are compared as unit vectors with tolerance 1e-9*cond + 3e-8*sqrt(cond) + 1024 eps*cond2, cond = product of"
    " the boost gammas times E/|p| of the designated momentum, cond2 the same with the gammas squared (rounding of"
    " 1/sqrt(1-beta^2), dominant for events in a lab frame; there additionally 256x the measured change of the reference direction"
    " under 4-ulp perturbations of the input momenta and 64x (+16x the batch maximum of) the difference between the"
    " reference in double and in extended precision); invariant masses via m^2 with tolerance 1e-12*E_total^2",
]
BUDGET = {
    "quick": {"examples": 320, "shards": 16, "cap_s": 150, "shrink_calls": 40, "shrink_s": 90, "case_timeout_s": 60},
    "thorough": {"examples": 6000, "shards": 16, "cap_s": 2400, "shrink_calls": 150, "shrink_s": 300, "case_timeout_s": 90},
}
MASSES = [0.0, 0.0005, 0.135, 0.494, 0.938]


def _topo(n):
    n_inter = n - 2
    return st.fixed_dictionaries({
        "idx": st.integers(0, n_isobar_topologies(n) - 1),
        "perm": st.permutations(list(range(n))),
        "renumber": st.permutations(list(range(n_inter))),
    })


def strategy(tier):
    ns = (2, 3, 3, 4, 4, 4, 5) if tier == "thorough" else (2, 3, 3, 4, 4, 4)

    def for_n(n):
        return st.fixed_dictionaries({
            "n": st.just(n),
            "topos": st.lists(_topo(n), min_size=1, max_size=3 if n <= 4 else 2),  # 3 five-body topologies: minutes, GBs
            "permutate": st.sampled_from([False, False, True]) if n <= 4 else st.just(False),
            "masses": st.lists(st.sampled_from(MASSES), min_size=n, max_size=n),
            "total": st.sampled_from([1.001, 1.05, 1.5, 3.0, 30.0, 1000.0]),
            "edge": st.sampled_from([0.3, 0.05, 1e-3, 1e-6]),
            "axis": st.sampled_from([False] * 7 + [True]),
            # the decaying particle in flight: the whole event boosted from its rest frame to a "lab" frame
            # (beta*gamma = 10^bg along a direction drawn from the seed, or along an axis)
            "lab": st.one_of(st.none(), st.none(), st.fixed_dictionaries({
                "bg": st.sampled_from([-1.0, 0.0, 0.5, 1.0, 2.0, 3.0, 4.0, 4.5]),
                "dir": st.sampled_from(["random", "random", "random", "+z", "-z", "+x"]),
            })),
            # five-body chains without cse: the generated source has 10^8 characters and compiling it takes GBs
            # edge ids need not start at 0: every non-initial edge shifted so that the final states are k..k+n-1 <= 9
            "offset": st.sampled_from([0, 0, 0, 0, 10 - n, 10 - n, 1, 5 if n <= 4 else 2]),
            "cse": st.booleans() if n <= 4 else st.just(True),
            "seed": st.integers(0, 2**31 - 1),
        })

    return st.sampled_from(ns).flatmap(for_n)


def fixed_cases(tier):
    cases = []
    # every isobar topology x every final-state permutation for n <= 4 (finite sub-space)
    for n in (3, 4):
        for idx in range(n_isobar_topologies(n)):
            for perm in itertools.permutations(range(n)):
                if tier == "quick" and n == 4 and sum(perm) % 1 == 0 and hash(perm) % 4 != 0:
                    continue
                cases.append({
                    "n": n, "topos": [{"idx": idx, "perm": list(perm), "renumber": list(range(n - 2))}],
                    "permutate": False, "masses": [0.135, 0.494, 0.938, 0.0][:n], "total": 1.5, "edge": 0.05,
                    "axis": False, "cse": True, "seed": 5,
                })
    return cases


def _boost_to_lab(momenta, lab, seed):
    """All final-state momenta boosted with beta*gamma = 10^bg (numpy, independent of the library)."""
    bg = 10.0 ** float(lab["bg"])
    gamma = float(np.sqrt(1.0 + bg * bg))
    if lab["dir"] == "random":
        rng = np.random.default_rng([int(seed), 77])
        v = rng.normal(size=3)
        direction = v / np.linalg.norm(v)
    else:
        direction = {"+z": np.array([0.0, 0.0, 1.0]), "-z": np.array([0.0, 0.0, -1.0]), "+x": np.array([1.0, 0.0, 0.0])}[lab["dir"]]
    out = {}
    for k, p in momenta.items():
        par = p[:, 1:] @ direction
        e = gamma * p[:, 0] + bg * par
        par_new = gamma * par + bg * p[:, 0]
        q = p.copy()
        q[:, 0] = e
        q[:, 1:] = p[:, 1:] + np.outer(par_new - par, direction)
        out[k] = q
    return out, gamma


def build_topology(n, td, offset=0):
    t = make_topology(n, td["idx"], td["perm"])
    inter = intermediate_edges(t)
    mapping = {e: inter[td["renumber"][k]] for k, e in enumerate(inter) if e != inter[td["renumber"][k]]}
    if mapping:
        t = t.relabel_edges(mapping)
    if offset:  # final states offset..offset+n-1 (single digits, as the naming scheme needs), intermediate edges after them
        (init,) = t.incoming_edge_ids
        t = t.relabel_edges({e: e + offset for e in sorted(t.edges, reverse=True) if e != init})
    return t


@functools.lru_cache(maxsize=64)
def _scattering_angle_fn(i, j):
    from ampform.kinematics.angles import formulate_scattering_angle  # noqa: PLC0415

    symbol, expr = formulate_scattering_angle(i, j)
    del symbol
    unfolded = expr.doit()
    syms = sorted(unfolded.free_symbols, key=str)
    return syms, sp.lambdify(syms, unfolded, "numpy")


def run_case(desc) -> Result:  # noqa: C901, PLR0912, PLR0914, PLR0915
    from ampform.kinematics import HelicityAdapter  # noqa: PLC0415

    n = desc["n"]
    topologies = []
    structures = set()
    offset = int(desc.get("offset", 0))
    for td in desc["topos"]:
        t = build_topology(n, td, offset)
        if t not in topologies:
            topologies.append(t)
        structures.add(frozenset(attached(t, e) for e in intermediate_edges(t)))
    adapter = under_test("HelicityAdapter", HelicityAdapter, topologies)
    if desc["permutate"]:
        under_test("permutate_registered_topologies", adapter.permutate_registered_topologies)
    registered = sorted(adapter.registered_topologies, key=lambda t: sorted((k, v.originating_node_id or -1, v.ending_node_id or -1) for k, v in t.edges.items()))
    labels = [f"n={n}", f"registered={min(len(registered), 4) if len(registered) < 4 else '4+'}", f"cse={desc['cse']}"]
    if 0.0 in desc["masses"]:
        labels.append("massless")
    if desc["edge"] <= 1e-3:
        labels.append("near_threshold")
    if desc["total"] >= 30:
        labels.append("boosted")
    if desc["axis"]:
        labels.append("axis_aligned")
    if offset:
        labels.append(f"final_state_ids_from_{offset}")
    nontrivial = any(len(t.nodes) >= 2 for t in registered)

    expressions = under_test("create_expressions", adapter.create_expressions)
    fn = under_test("lambdify_kinematics", kinematics_function, expressions, None, desc["cse"])
    final_masses = {i + offset: m for i, m in enumerate(desc["masses"])}
    total = (sum(desc["masses"]) + 0.01) * desc["total"]
    momenta = generate_events(topologies[0], final_masses, total, 16, desc["seed"], edge=desc["edge"], axis_aligned=desc["axis"])
    lab = desc.get("lab")
    if lab:
        momenta, gamma_lab = _boost_to_lab(momenta, lab, desc["seed"])
        total = total * gamma_lab * 2
        labels.append(f"lab_frame:bg=1e{lab['bg']:g}")
        if lab["dir"] != "random":
            labels.append("lab_boost_along_axis")
    got = under_test("evaluate_kinematics", fn, momenta)
    got = {k.name: np.asarray(v) for k, v in got.items()}
    e_tot = total

    # reference per registered topology
    refs = [frames.reference_kinematics(t, momenta) for t in registered]
    # lab frame: the rest-frame directions are differences of numbers gamma^2 times larger, and how much of that
    # survives in doubles depends on the event; measured by moving every input component by a few ulp
    slack: dict[str, np.ndarray] = {}
    if lab:
        rng = np.random.default_rng([int(desc["seed"]), 99])
        for _ in range(4):
            # (absolute steps of 4 ulp of the energy: components that are exactly 0 in an axis-aligned event move too)
            moved = {k: p + 4 * 2.2e-16 * p[:, :1] * rng.choice([-1.0, 1.0], size=p.shape) for k, p in momenta.items()}
            for (values, _m), topo in zip(refs, registered):
                values_p, _ = frames.reference_kinematics(topo, moved)
                for nm in values:
                    if nm.startswith("phi"):
                        th = "theta" + nm[3:]
                        with np.errstate(all="ignore"):
                            d = np.linalg.norm(frames.unit_vector(values_p[nm], values_p[th]) - frames.unit_vector(values[nm], values[th]), axis=1)
                        d = np.where(np.isfinite(d), d, np.inf)
                        slack[nm] = np.maximum(slack.get(nm, 0.0), d)
        # ... and by repeating the reference in extended precision: |double - long double| is the rounding noise of a
        # straightforward double-precision evaluation (the library's is one, too); the batch maximum is used
        # as well because all 16 events of a case share masses and boost
        extended = {k: p.astype(np.longdouble) for k, p in momenta.items()}
        for (values, _m), topo in zip(refs, registered):
            values_x, _ = frames.reference_kinematics(topo, extended)
            for nm in values:
                if nm.startswith("phi"):
                    th = "theta" + nm[3:]
                    with np.errstate(all="ignore"):
                        d = np.linalg.norm(
                            frames.unit_vector(values_x[nm].astype(float), values_x[th].astype(float))
                            - frames.unit_vector(values[nm], values[th]), axis=1)
                    d = np.where(np.isfinite(d), d, np.inf)
                    finite = d[np.isfinite(d)]
                    d = 64 * d + 16 * (float(finite.max()) if finite.size else 0.0)
                    slack[nm] = np.maximum(slack.get(nm, 0.0), d / 256)
    names = set()
    for values, _ in refs:
        names |= set(values)
    missing = sorted(names - set(got))
    extra = sorted(set(got) - names)
    if missing or extra:
        return violation("set_of_variable_names", nontrivial, labels, missing=missing[:5], unexpected=extra[:5])

    # (a) invariant masses
    for name in sorted(x for x in names if x.startswith("m_")):
        ref_val = next(v[name] for v, _ in refs if name in v)
        d = np.abs(np.asarray(got[name], dtype=complex) ** 2 - ref_val**2)
        if not np.all(d <= 1e-11 * e_tot**2):
            return violation("invariant_mass", nontrivial, labels, variable=name, max_abs_diff_m2=float(np.max(d)), e_total=e_tot)

    # (b)/(d) angles
    kinds = set()
    pending = None
    for phi_name in sorted(x for x in names if x.startswith("phi")):
        theta_name = "theta" + phi_name[3:]
        lib = frames.unit_vector(np.real(got[phi_name]), np.real(got[theta_name]))
        candidates = []
        for (values, meta), topo in zip(refs, registered):
            if phi_name in values:
                candidates.append((frames.unit_vector(values[phi_name], values[theta_name]), meta[phi_name], topo))
        base_vec, base_meta, _ = candidates[0]
        kinds.add(base_meta["kind"])
        cond = np.nan_to_num(base_meta["cond"], nan=1e30, posinf=1e30)
        tol = 1e-9 * cond + 3e-8 * np.sqrt(cond) + 1024 * 2.2e-16 * np.nan_to_num(base_meta["cond2"], nan=1e30, posinf=1e30)
        if phi_name in slack:
            tol = tol + 256 * slack[phi_name]
        usable = tol < 1e-2  # beyond that the direction is numerically undefined
        # acos(1 + 2e-16) = nan for a momentum exactly along +-z: rounding at a measure-zero
        # configuration (labelled); a nan anywhere else is a wrong value
        lib_nan = np.isnan(lib).any(axis=1)
        ref_theta_b = next(v for v, m in refs if theta_name in v)[theta_name]
        on_axis = (np.abs(np.sin(ref_theta_b)) < 1e-6) | (base_meta["ancestor_sin"] < 1e-6)
        if np.any(lib_nan & usable):
            v = violation(
                "angle_is_nan", nontrivial, labels, variable=phi_name, n_events=int(np.sum(lib_nan & usable)),
                momentum_or_ancestor_exactly_on_z_axis=bool(np.all(on_axis[lib_nan & usable])),
            )
            if not v.detail["momentum_or_ancestor_exactly_on_z_axis"]:
                return v
            pending = pending or v  # known pattern: keep searching behind it
        usable = usable & ~lib_nan
        # (d) all registered topologies that define the name must agree
        for vec, meta, _topo in candidates[1:]:
            c2 = np.nan_to_num(meta["cond"], nan=1e30, posinf=1e30)
            t2 = np.maximum(tol, 1e-9 * c2 + 3e-8 * np.sqrt(c2) + 1024 * 2.2e-16 * np.nan_to_num(meta["cond2"], nan=1e30, posinf=1e30))
            u2 = usable & (t2 < 1e-2)
            diff = np.linalg.norm(vec - base_vec, axis=1)
            if np.any(diff[u2] > t2[u2]):
                v = violation(
                    "name_denotes_two_quantities", nontrivial, labels, variable=phi_name,
                    node_kinds=sorted({base_meta["kind"], meta["kind"]}), max_diff=float(np.max(diff[u2])),
                    tree_stores_opposite_child=bool(
                        base_meta["stored_by_tree"] != base_meta["named"] or meta["stored_by_tree"] != meta["named"]
                    ),
                )
                if not (v.detail["tree_stores_opposite_child"] and v.detail["node_kinds"] == ["both_decay"]):
                    return v
                pending = pending or v  # known pattern (F4): keep searching behind it
        diff = np.linalg.norm(lib - base_vec, axis=1)
        # an ancestor flying exactly along the z axis of its frame has no azimuth (atan2(+-0, +-0) is a convention),
        # so the x axis of every frame below it is defined up to a rotation about z: only the polar angle is compared
        azimuth_undefined = np.asarray(base_meta["ancestor_sin"]) < 1e-6
        if np.any(azimuth_undefined):
            diff = np.where(azimuth_undefined, np.abs(lib[:, 2] - base_vec[:, 2]), diff)
            if "ancestor_on_z_axis:polar_angle_only" not in labels:
                labels.append("ancestor_on_z_axis:polar_angle_only")
        if np.any(diff[usable] > tol[usable]):
            # is it explained by the sibling's direction (F4)?
            explained = False
            if base_meta["kind"] == "both_decay":
                explained = bool(np.all(np.linalg.norm(lib - base_meta["sibling_unit"], axis=1)[usable] <= 10 * tol[usable]))
            v = violation(
                "angle_differs_from_documented_momentum", nontrivial, labels, variable=phi_name,
                node_kind=base_meta["kind"], max_diff=float(np.max(diff[usable])), max_tol=float(np.max(tol[usable])),
                tree_stores_opposite_child=bool(any(m["stored_by_tree"] != m["named"] for _, m, _ in candidates)),
                explained_by_sibling_direction=explained,
            )
            if not (explained and v.detail["tree_stores_opposite_child"] and base_meta["kind"] == "both_decay"):
                return v
            pending = pending or v  # known pattern (F4): keep searching behind it
    labels += sorted(f"node:{k}" for k in kinds)

    # (c) three-body: polar helicity angle of the resonance decay = library's closed form (a statement about
    # the decay in the rest frame of the decaying particle: in a lab frame the helicity axis of the isobar is its
    # direction of flight *there*, which the Dalitz variables do not know)
    if n == 3 and not lab and not offset:
        for topo in registered:
            for node in topo.nodes:
                a, b = children_of(topo, node)
                if topo.edges[a].ending_node_id is not None or topo.edges[b].ending_node_id is not None:
                    continue
                (init,) = topo.incoming_edge_ids
                if next(iter(topo.get_edge_ids_ingoing_to_node(node))) == init:
                    continue
                _, theta_name = angle_names(topo, a)
                syms, f = under_test("formulate_scattering_angle", _scattering_angle_fn, a + 1, b + 1)
                vals = {}
                for s in syms:
                    nm = s.name
                    ids = nm[2:] if nm.startswith("m_") else ""
                    if nm == "m_0":
                        vals[s] = np.full(16, e_tot, dtype=complex)
                    elif ids in {"1", "2", "3"}:
                        vals[s] = np.full(16, desc["masses"][int(ids) - 1], dtype=complex)
                    elif len(ids) == 2 and set(ids) <= {"1", "2", "3"}:
                        p = momenta[int(ids[0]) - 1] + momenta[int(ids[1]) - 1]
                        vals[s] = np.sqrt((p[:, 0] ** 2 - np.sum(p[:, 1:] ** 2, axis=1)).astype(complex))
                    else:
                        return violation("unexpected_symbol_in_scattering_angle", nontrivial, labels, symbol=nm)
                closed = np.real(under_test("evaluate_scattering_angle", lambda: f(*[vals[s] for s in syms])))
                # conditioning of the closed form, measured: the pair masses come from momenta
                # (m^2 = E^2 - p^2 carries an absolute error ~ eps*E_tot^2); re-evaluate with the
                # inputs moved by that much in every sign pattern and take the spread
                pair_syms = [s for s in syms if len(s.name) == 4]
                spread = np.zeros(16)
                any_nan = np.isnan(closed)
                with np.errstate(divide="ignore", invalid="ignore"):
                    for signs_ in itertools.product((-1.0, 1.0), repeat=len(pair_syms)):
                        pert = dict(vals)
                        for sg, s in zip(signs_, pair_syms):
                            m2 = vals[s] ** 2
                            pert[s] = np.sqrt(m2 + sg * 8e-16 * e_tot**2)
                        alt = np.real(f(*[pert[s] for s in syms]))
                        any_nan |= np.isnan(alt)
                        spread = np.maximum(spread, np.nan_to_num(np.abs(alt - closed), nan=0.0))
                ref_theta = next(v for v, m in refs if theta_name in v)[theta_name]
                meta = next(m for v, m in refs if theta_name in m)[theta_name]
                cond = np.nan_to_num(meta["cond"], nan=1e30, posinf=1e30)
                # ... plus the rounding amplification of the expanded Kallen polynomials inside
                # the closed form, K = (x+y+z)^2 / lambda(x,y,z) for its two Kallen functions
                k_id = next(i for i in range(3) if i not in (a, b))
                p_pair = momenta[a] + momenta[b]
                sig = p_pair[:, 0] ** 2 - np.sum(p_pair[:, 1:] ** 2, axis=1)
                ma2, mb2, mk2 = (desc["masses"][i] ** 2 for i in (a, b, k_id))

                def kallen(x, y, z):
                    return x**2 + y**2 + z**2 - 2 * x * y - 2 * y * z - 2 * z * x

                with np.errstate(divide="ignore", invalid="ignore"):
                    ka = (e_tot**2 + mk2 + sig) ** 2 / np.abs(kallen(e_tot**2, mk2, sig))
                    kb = (sig + ma2 + mb2) ** 2 / np.abs(kallen(sig, ma2, mb2))
                    dc = 1e-13 * (np.sqrt(ka) + np.sqrt(kb)) ** 2
                    tol_k = np.minimum(2 * dc / np.abs(np.sin(ref_theta)), 3 * np.sqrt(dc))
                tol_k = np.nan_to_num(tol_k, nan=1e30, posinf=1e30)
                tol = 1e-8 + 20 * spread + tol_k + 1e-9 * cond + 3e-8 * np.sqrt(cond)
                usable = tol < 1e-2
                usable = usable & ~np.isnan(np.real(got[theta_name]))  # judged in (b)
                # acos(1 + 2e-16) = nan: rounding at a (nearly) collinear point, not a value
                collinear = np.abs(np.sin(ref_theta)) <= 1e-3
                undetermined = any_nan & collinear
                if np.any(undetermined) and "closed_form_nan_at_collinear_point" not in labels:
                    labels.append("closed_form_nan_at_collinear_point")
                usable = usable & ~undetermined
                d = np.abs(np.real(got[theta_name]) - closed)
                d = np.where(np.isnan(d), np.inf, d)
                if np.any(d[usable] > tol[usable]):
                    return violation(
                        "helicity_angle_differs_from_dalitz_closed_form", nontrivial, labels, variable=theta_name,
                        max_diff=float(np.max(d[usable])),
                    )
        labels.append("dalitz_closed_form_checked")
    if pending is not None:
        return pending
    return ok(nontrivial, labels, n_variables=len(got), n_registered=len(registered))
