"""C15 — pickle round trip is the identity.

Cases are grouped in *families* (``desc["family"]``).  This module implements the family
``"expr"`` — every expression class the library defines (G5 generator, `vp.gen.exprs`: classes
found by introspection, arguments nested up to three library classes deep, non-sympy
attributes ``name`` / ``phsp_factor``) — and is laid out so that further families (whole
``HelicityModel`` objects) can be plugged in with `register_family`.

Oracle of the ``expr`` family, for pickle protocols 2..5:

* same process: ``loads(dumps(e))`` has the same class, equal ``args``, equal value of every
  dataclass field (sympy and non-sympy), equal assumptions, ``==`` in both directions, equal
  ``hash``, equal ``srepr`` and an equal *structural digest* (class names + srepr of the atoms +
  repr of the non-sympy attributes; does not use the library's ``__eq__``); the unfolded forms
  ``doit()`` give bit-identical numpy results on a fixed batch;
* fresh interpreter: the pickle is sent to a long-lived helper process (one per shard, started
  with ``sys.executable -c`` and ``PYTHONPATH`` = code under test + harness; it is a different
  process with its own sympy cache, so nothing is shared by identity), which unpickles it and
  answers with the structural digest, the srepr hash and the numeric fingerprint of the
  loaded object; the parent compares them with the values of the original.
"""

from __future__ import annotations

import atexit
import hashlib
import importlib
import json
import os
import pickle
import struct
import subprocess
import sys
import warnings
from pathlib import Path

from hypothesis import strategies as st

from vp.gen import exprs as G
from vp.harness import REPO_SRC, Result, ok, skip, under_test, violation

PROPERTY = "C15"
RULE = (
    "Hypothesis draws (family; for 'expr': class uniformly over the classes found by introspection,"
    " argument trees by kind up to 3 nested library classes, non-sympy attributes, pickle protocol"
    " 2..5). Non-trivial: the pickled object contains a nested library-class argument or a"
    " non-default non-sympy attribute. Distinct = distinct descriptor hash."
)
ASSUMPTIONS = [
    "sympy's own pickling of Symbol/Number/Add/... and of ArraySymbol is trusted; the digest pins it anyway",
    "the fresh interpreter is a spawned `sys.executable` with PYTHONPATH = [code under test, harness]; one helper per shard serves all cases of the shard (batched), it reports the path of the ampform package it imported and that must equal the parent's",
    "numeric identity = bit-identical complex128 result of lambdify(obj.doit(), cse=True) on a fixed 3-event batch (physical four-momenta, positive scalars); skipped (labelled) when the unfolded form is larger than 6000 nodes, singular, or not lambdifiable in the parent either",
    "only the 'expr' family is implemented here; whole models are a second family to be registered with register_family()",
]
BUDGET = {
    "quick": {"examples": 1600, "shards": 16, "cap_s": 150, "shrink_calls": 150, "shrink_s": 40, "case_timeout_s": 30},
    "thorough": {"examples": 30000, "shards": 16, "cap_s": 1500, "shrink_calls": 1000, "shrink_s": 240, "case_timeout_s": 90},
}

ROOT = Path(__file__).resolve().parent.parent.parent
MAX_NODES_NUMERIC = 6000


# ----------------------------------------------------------------------- family registry
FAMILIES: dict[str, dict] = {}


def register_family(name, *, strategy, run, fixed=None, weight=1):
    """Plug in a family of cases.

    strategy(tier) -> Hypothesis strategy of descriptors (the key ``"family": name`` is added
    here); run(desc) -> Result; fixed(tier) -> list of descriptors; weight: relative share of
    the generated cases.  A family that needs the fresh interpreter calls
    `fresh_process_fingerprint(blob, "module:function", extra)`: the helper imports
    ``module`` and answers with ``function(loaded_object, extra)`` (JSON-serialisable)."""
    FAMILIES[name] = {"strategy": strategy, "run": run, "fixed": fixed, "weight": weight}


def shard_env(k, tier):
    return {"VP_GEN_EXPRS_PART": str(k)}


def strategy(tier):
    options = []
    for name, fam in FAMILIES.items():
        strat = fam["strategy"](tier).map(lambda d, name=name: {"family": name, **d})
        options += [strat] * fam["weight"]
    return st.one_of(*options)


def fixed_cases(tier):
    out = []
    for name, fam in FAMILIES.items():
        if fam["fixed"] is not None:
            out += [{"family": name, **d} for d in fam["fixed"](tier)]
    return out


def run_case(desc) -> Result:
    fam = FAMILIES.get(desc.get("family", "expr"))
    if fam is None:
        return skip("unknown_family", [f"family:{desc.get('family')}"])
    return fam["run"](desc)


# ----------------------------------------------------------------------- fresh interpreter
_HELPER_CODE = "from vp.checks.c15 import _child_main; _child_main()"
_helper: dict = {"proc": None, "src": None}


def _kill_helper():
    proc = _helper["proc"]
    _helper["proc"] = None
    if proc is not None:
        try:
            proc.kill()
            proc.wait(timeout=5)
        except Exception:  # noqa: BLE001
            pass


atexit.register(_kill_helper)


def _start_helper():
    env = dict(os.environ)
    env["PYTHONPATH"] = os.pathsep.join([REPO_SRC, str(ROOT)])
    env.pop("VP_GEN_EXPRS_PART", None)
    proc = subprocess.Popen(  # noqa: S603
        [sys.executable, "-c", _HELPER_CODE],
        stdin=subprocess.PIPE,
        stdout=subprocess.PIPE,
        stderr=subprocess.DEVNULL,
        env=env,
        cwd=str(ROOT),
    )
    hello = json.loads(proc.stdout.readline() or b"{}")
    if "ampform" not in hello:
        proc.kill()
        msg = "fresh-interpreter helper did not start"
        raise RuntimeError(msg)
    _helper["proc"] = proc
    _helper["src"] = hello["ampform"]
    return proc


def fresh_process_fingerprint(blob: bytes, function: str, extra) -> dict:
    """Unpickle `blob` in the helper interpreter and return ``function(obj, extra)`` computed
    there (or ``{"error": ...}``).  Any interruption (per-case timeout) kills the helper, so the
    framing can never get out of step."""
    proc = _helper["proc"]
    if proc is None or proc.poll() is not None:
        proc = _start_helper()
    header = json.dumps({"function": function, "extra": extra}).encode()
    try:
        proc.stdin.write(struct.pack("<II", len(header), len(blob)) + header + blob)
        proc.stdin.flush()
        line = proc.stdout.readline()
    except BaseException:
        _kill_helper()
        raise
    if not line:
        _kill_helper()
        return {"error": "helper process died while loading the pickle"}
    return json.loads(line)


def helper_source() -> str | None:
    return _helper["src"]


def _child_main():
    """Body of the helper interpreter: frames in on stdin, one JSON line out per frame."""
    warnings.filterwarnings("ignore")
    import logging  # noqa: PLC0415

    logging.disable(logging.CRITICAL)
    import ampform  # noqa: PLC0415

    out = sys.stdout.buffer
    stdin = sys.stdin.buffer
    out.write(json.dumps({"ampform": str(ampform.__file__), "pid": os.getpid()}).encode() + b"\n")
    out.flush()
    while True:
        head = stdin.read(8)
        if len(head) < 8:  # noqa: PLR2004
            return
        n_header, n_blob = struct.unpack("<II", head)
        header = json.loads(stdin.read(n_header))
        blob = stdin.read(n_blob)
        try:
            obj = pickle.loads(blob)  # noqa: S301
        except BaseException as exc:  # noqa: BLE001
            answer = {"error": f"loads: {type(exc).__name__}: {exc}"[:400]}
        else:
            try:
                module, func = header["function"].split(":")
                answer = getattr(importlib.import_module(module), func)(obj, header["extra"])
            except BaseException as exc:  # noqa: BLE001
                answer = {"error": f"fingerprint: {type(exc).__name__}: {exc}"[:400]}
        out.write(json.dumps(answer).encode() + b"\n")
        out.flush()


# ----------------------------------------------------------------------- expr family
def numeric_fingerprint(obj, names) -> str:
    """sha256 of the complex128 bytes of lambdify(obj.doit(), cse=True) on the fixed batch, or a
    ``skipped:...`` / ``error:...`` marker.  The same function runs in parent and helper."""
    import numpy as np  # noqa: PLC0415
    import sympy as sp  # noqa: PLC0415

    try:
        unfolded = obj.doit()
        if G.count_nodes(unfolded, MAX_NODES_NUMERIC) >= MAX_NODES_NUMERIC:
            return "skipped:large"
        singular = {sp.zoo, sp.nan, sp.oo, -sp.oo}
        if any(n in singular for n in sp.preorder_traversal(unfolded) if isinstance(n, sp.Basic) and not n.args):
            return "skipped:singular"
        names = {**names, "idx": []}
        data = G.batch_data(names, seed=11, n_events=3)
        order = [*names["sym"], *names["lsym"], *names["arr"]]
        with warnings.catch_warnings():
            warnings.simplefilter("ignore")
            fn = sp.lambdify([sp.Symbol(n) for n in order], unfolded, "numpy", cse=True)
            with np.errstate(all="ignore"):
                value = np.asarray(fn(*[data[n] for n in order]), dtype=complex)
    except Exception as exc:  # noqa: BLE001
        return f"error:{type(exc).__name__}"
    return f"{value.shape}:" + hashlib.sha256(np.ascontiguousarray(value).tobytes()).hexdigest()


def expr_fingerprint(obj, extra) -> dict:
    """What the helper reports about a loaded expression (also computed by the parent)."""
    import sympy as sp  # noqa: PLC0415

    out = {
        "type": f"{type(obj).__module__}.{type(obj).__qualname__}",
        "digest": G.digest(obj),
        "srepr": hashlib.sha256(sp.srepr(obj).encode()).hexdigest(),
        "attributes": {
            name: G.attr_repr(getattr(obj, name, "<missing>")) for name in G.nonsympy_fields(type(obj))
        },
    }
    if extra.get("numeric"):
        out["numeric"] = numeric_fingerprint(obj, extra["names"])
    return out


def _expr_strategy(tier):
    part = os.environ.get("VP_GEN_EXPRS_PART")
    parts = int(os.environ.get("VP_SHARDS", BUDGET[tier]["shards"]))
    names = G.top_level_names(int(part), parts) if part is not None else None
    return st.fixed_dictionaries({
        "expr": G.instances(3, 2500 if tier == "quick" else 8000, names),
        "protocol": st.integers(0, 999).map(lambda i: 2 + i % 4),
    })


def _expr_fixed(tier):
    p = ["arr", "p0"]
    return [
        {"inventory": 1},
        # the historical failure: nested unevaluated arguments pickled as plain tuples
        {"expr": ["cls", "BoostMatrix", [["cls", "NegativeMomentum", [p], {}]], {}], "protocol": 2},
        {"expr": ["cls", "EuclideanNorm", [["cls", "ThreeMomentum", [p], {}]], {}], "protocol": 4},
        {"expr": ["cls", "BoostZMatrix", [G.beta_of(p), ["cls", "ArraySize", [p], {}]], {}], "protocol": 5},
        {"expr": ["cls", "EnergyDependentWidth",
                  [["sym", "s_p"], ["sym", "m_p"], ["sym", "g_n"], ["sym", "m_p"], ["sym", "w_p"], ["int", 2], ["num", "1"]],
                  {"phsp_factor": "PhaseSpaceFactorSWave", "name": r"\rho_1"}], "protocol": 3},
        {"expr": ["cls", "EnergyDependentWidth",
                  [["cls", "PhaseSpaceFactor", [["sym", "s_p"], ["sym", "m_p"], ["sym", "w_p"]], {"name": "N"}],
                   ["sym", "m_p"], ["sym", "g_n"], ["sym", "m_p"], ["sym", "w_p"], ["lsym", "L"], ["flt", 1.5]],
                  {"phsp_factor": "chew_mandelstam_s_wave", "name": None}], "protocol": 2},
        {"expr": ["cls", "FormFactor", [["sym", "s_p"], ["sym", "m_p"], ["sym", "w_p"], ["int", 1], ["num", "3/2"]], {}],
         "protocol": 2},
    ]


def _same_process_checks(e, loaded, labels, nontrivial, protocol):
    import dataclasses  # noqa: PLC0415

    import sympy as sp  # noqa: PLC0415

    detail = {"protocol": protocol, "original": str(e)[:200], "loaded": str(loaded)[:200]}
    if type(loaded) is not type(e):
        return violation("loaded_class_differs", nontrivial, labels, **detail, got=type(loaded).__name__)
    if G.structure(loaded.args) != G.structure(e.args):
        return violation("loaded_args_differ", nontrivial, labels, **detail,
                         got=str(loaded.args)[:300], want=str(e.args)[:300])
    if dataclasses.is_dataclass(e):
        for f in dataclasses.fields(e):
            want = getattr(e, f.name)
            got = getattr(loaded, f.name, "<missing>")
            same = G.structure(got) == G.structure(want) if f.metadata.get("sympify") else (
                got is want or (got == want and type(got) is type(want))
            )
            if not same:
                return violation("loaded_attribute_differs", nontrivial, labels, **detail, attribute=f.name,
                                 sympy_field=bool(f.metadata.get("sympify")), got=G.attr_repr(got)[:200],
                                 want=G.attr_repr(want)[:200])
    if G.digest(loaded) != G.digest(e):
        return violation("loaded_digest_differs", nontrivial, labels, **detail)
    if sp.srepr(loaded) != sp.srepr(e):
        return violation("loaded_srepr_differs", nontrivial, labels, **detail)
    if not (loaded == e) or not (e == loaded) or loaded != e:
        return violation("loaded_not_equal", nontrivial, labels, **detail)
    if hash(loaded) != hash(e):
        return violation("loaded_hash_differs", nontrivial, labels, **detail)
    if loaded.assumptions0 != e.assumptions0:
        return violation("loaded_assumptions_differ", nontrivial, labels, **detail)
    return None


def run_inventory() -> Result:
    """Which classes were discovered, which recipe they use, which could not be instantiated."""
    inv = G.inventory()
    labels = ["family:expr"]
    for name, entry in inv.items():
        labels.append(f"class:{name}:{entry['status']}:{entry['recipe']}")
        if entry["status"] == "failed":
            labels.append(f"NOT_INSTANTIATED:{name}")
    for mod in G.import_failures():
        labels.append(f"MODULE_IMPORT_FAILED:{mod}")
    labels.append(f"classes_discovered={len(inv)}")
    return ok(False, labels, inventory=inv, import_failures=G.import_failures())


def run_expr(desc) -> Result:
    if "inventory" in desc:
        return run_inventory()
    tree, protocol = desc["expr"], desc["protocol"]
    name = tree[1]
    cls = G.discover().get(name)
    if cls is None:
        return skip("class_no_longer_exists", [f"cls:{name}"])
    labels = ["family:expr", f"cls:{name}", f"protocol={protocol}", f"depth={G.class_depth(tree)}"]
    nested = G.has_nested_class(tree)
    attrs = G.nondefault_attributes(tree)
    if nested:
        labels.append("nested_class_argument")
    if attrs:
        labels.append("non_default_non_sympy_attribute")
    nontrivial = bool(nested or attrs)

    e = G.build(tree, under_test)
    if not isinstance(e, cls):
        return skip("constructor_evaluated_at_once", labels)
    blob = under_test("pickle.dumps", pickle.dumps, e, protocol)
    loaded = under_test("pickle.loads", pickle.loads, blob)
    res = _same_process_checks(e, loaded, labels, nontrivial, protocol)
    if res is not None:
        return res

    # numeric identity, same process
    names = G.leaves(tree)
    want_num = numeric_fingerprint(e, names)
    labels.append("numeric:" + (want_num.split(":")[0] if want_num.startswith(("skipped", "error")) else "compared"))
    numeric = not want_num.startswith(("skipped", "error"))
    if numeric:
        got_num = numeric_fingerprint(loaded, names)
        if got_num != want_num:
            return violation("loaded_numeric_value_differs", nontrivial, labels, protocol=protocol,
                             got=got_num, want=want_num, where="same process")

    # fresh interpreter
    answer = fresh_process_fingerprint(blob, "vp.checks.c15:expr_fingerprint", {"numeric": numeric, "names": names})
    import ampform  # noqa: PLC0415

    if helper_source() != str(ampform.__file__):
        msg = f"helper imported {helper_source()} but the shard tests {ampform.__file__}"
        raise RuntimeError(msg)
    if "error" in answer:
        return violation("fresh_process_load_fails", nontrivial, labels, protocol=protocol,
                         message=answer["error"], original=str(e)[:200])
    want = expr_fingerprint(e, {"numeric": False})
    for key in ("type", "digest", "srepr", "attributes"):
        if answer.get(key) != want[key]:
            return violation(f"fresh_process_{key}_differs", nontrivial, labels, protocol=protocol,
                             got=str(answer.get(key))[:300], want=str(want[key])[:300], original=str(e)[:200])
    if numeric and answer.get("numeric") != want_num:
        return violation("loaded_numeric_value_differs", nontrivial, labels, protocol=protocol,
                         got=answer.get("numeric"), want=want_num, where="fresh process")
    labels.append("fresh_process:compared")
    return ok(nontrivial, labels, expr=str(e)[:160], pickle_bytes=len(blob))


register_family("expr", strategy=_expr_strategy, run=run_expr, fixed=_expr_fixed, weight=5)

# further families live in their own modules, which call `register_family` when imported
for _module in ("vp.checks.c15_models", "vp.checks.c15_custom"):
    try:
        importlib.import_module(_module)
    except ModuleNotFoundError as _exc:
        if _exc.name != _module:
            raise
