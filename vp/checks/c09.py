"""C09 — K-matrix amplitudes are unitary and symmetric for real parameters.

Case = (configuration, regime, point_seed).  The configuration (class, channels, poles,
L, meson radius, phase-space factor, evaluation route) is formulated and lambdified once
per process (`functools.lru_cache`); every case evaluates the T-matrix on a batch of real
parameter points drawn from ``numpy.random.default_rng(point_seed)`` and checks, per
point, in plain numpy

    S = 1 + 2iT :  ||S^dagger S - 1||_max <= 1e-9 * cond        (kind ``not_unitary``)
                   ||T - T^T||_max        <= 1e-10 * ||T|| * cond  (kind ``not_symmetric``)

``cond = max(1, max_ij |K'_ij|)^(n_channels-1)`` with ``K'`` the real symmetric matrix of
the documented pole parametrisation (numpy reference, `vp.ref.kmat.ref_k_unitary`): the
library's T is the *symbolic* inverse, whose cofactor expansion cancels ``n-1`` powers of
the pole term when ``s`` approaches a pole.  Points closer than 1e-3 (relative) to a pole
are labelled; points whose tolerance exceeds 1e-3 are counted as ``vacuous`` and do not
count towards non-triviality.

Region ``pole_below_threshold`` (relativistic only): a pole mass below the threshold of a
channel it couples to with non-zero residue.  There `EnergyDependentWidth` normalises by
``rho(m_R^2)`` / ``FormFactor(m_R^2)^2``, which are imaginary / negative, K is not real and
unitarity is lost (open finding); failures there are reported under their own kind
``not_unitary_subthreshold_pole`` with ``region="pole_below_threshold"``.  Symmetry is
asserted everywhere.
"""

from __future__ import annotations

import functools
import os

import numpy as np
import sympy as sp
from hypothesis import strategies as st

from vp.harness import Result, ok, under_test, violation
from vp.ref import kmat

PROPERTY = "C09"
RULE = (
    "Hypothesis draws (configuration, regime, point_seed); configuration = (class NR|R, n_channels, n_poles, L,"
    " meson radius 1|3/2|symbol, phase-space factor real above threshold, route doit|compose) from a per-tier"
    " list (quick: 12 configurations with <=2 channels for every shard + one 3-channel configuration per shard;"
    " thorough: the full grid 3x4, L<=4); each case evaluates a batch of real parameter points (64 quick, 512"
    " thorough) in one of the regimes generic/near_threshold/near_pole/wide/degenerate/subthreshold_pole."
    " Non-trivial: (n_channels>=2 or n_poles>=2) and >=20 points of the batch were asserted with a"
    " non-vacuous tolerance (<=1e-3). Distinct = distinct descriptor hash."
)
ASSUMPTIONS = [
    "numeric value of the formulated matrix = lambdify(numpy) of matrix.doit() (route doit), or of the same tree"
    " with sums unrolled and every unevaluated node unfolded once (route compose); numpy double precision",
    "residues >= 0, widths > 0, channel masses > 0 (the symbols are declared nonnegative); s above the highest threshold",
    "tolerance scaled by cond = max(1,|K'|)^(n_channels-1) from a numpy reference of the documented parametrisation;"
    " points with tolerance > 1e-3 are not asserted (counted as vacuous)",
    "phase-space factors: PhaseSpaceFactor, PhaseSpaceFactorAbs, PhaseSpaceFactorComplex (real above threshold)",
    "points that are NaN with real float inputs (numpy sqrt of a negative number) are re-evaluated with complex inputs",
]
BUDGET = {
    "quick": {"examples": 1280, "shards": 16, "cap_s": 150, "shrink_calls": 150, "shrink_s": 60},
    "thorough": {"examples": 14400, "shards": 16, "cap_s": 1500, "shrink_calls": 600, "shrink_s": 240},
}
BATCH = {"quick": 64, "thorough": 512}

TOL_UNITARY = 1e-9
TOL_SYMMETRIC = 1e-10
VACUOUS = 1e-3
NEAR_POLE = 1e-3


def _cfg(cls, nc, npo, ell=0, d="1", phsp="PhaseSpaceFactor", route="compose"):
    return {"cls": cls, "nc": nc, "np": npo, "L": ell, "d": d, "phsp": phsp, "route": route}


LIGHT = [
    _cfg("NR", 1, 1, route="doit"),
    _cfg("NR", 1, 4, route="doit"),
    _cfg("NR", 2, 2, route="doit"),
    _cfg("NR", 2, 4),
    _cfg("R", 1, 1, 0, "1", "PhaseSpaceFactor", "doit"),
    _cfg("R", 1, 3, 1, "3/2", "PhaseSpaceFactorComplex", "doit"),
    _cfg("R", 1, 4, 4, "sym", "PhaseSpaceFactorAbs"),
    _cfg("R", 2, 1, 0, "1", "PhaseSpaceFactor", "doit"),
    _cfg("R", 2, 1, 3, "sym", "PhaseSpaceFactorComplex"),
    _cfg("R", 2, 2, 2, "sym", "PhaseSpaceFactor"),
    _cfg("R", 2, 3, 0, "3/2", "PhaseSpaceFactorAbs"),
    _cfg("R", 2, 4, 4, "1", "PhaseSpaceFactorComplex"),
]
# one of these per shard in the quick tier (3-channel symbolic inverse: 12-25 s per class and process)
HEAVY = [
    _cfg("NR", 3, 1),
    _cfg("R", 3, 1, 0, "1", "PhaseSpaceFactor"),
    _cfg("NR", 3, 3),
    _cfg("R", 3, 2, 1, "sym", "PhaseSpaceFactorAbs"),
]


def shard_env(k, tier):
    return {"VP_KMAT_SHARD": str(k)}


def _config_strategy(tier):
    # NB: only `sampled_from` over lists of < 256 entries, combined with `tuples`: Hypothesis' distribution over
    # larger index ranges is biased towards the head of the list, and big-integer seeds made it repeat itself
    # (78% of the thorough cases collapsed onto 1 channel / 1 pole before).
    if tier == "quick":
        k = int(os.environ.get("VP_KMAT_SHARD", "0"))
        heavy = HEAVY[k % len(HEAVY)]
        return st.one_of(st.sampled_from(LIGHT), st.sampled_from(LIGHT), st.just(heavy))
    shape = st.sampled_from([(nc, npo) for nc in (1, 2, 3) for npo in (1, 2, 3, 4)])
    dyn = st.sampled_from([
        (ell, d, phsp) for ell in range(5) for d in ("1", "3/2", "sym") for phsp in kmat.REAL_ABOVE_THRESHOLD
    ])
    cls = st.sampled_from(["R", "R", "R", "NR"])

    def build(t):
        (kind, (nc, npo), (ell, d, phsp)) = t
        return _cfg("R", nc, npo, ell, d, phsp) if kind == "R" else _cfg("NR", nc, npo)

    return st.tuples(cls, shape, dyn).map(build)


VARIANT_FLAGS = [(True, False), (True, True), (False, False), (False, True)]  # (parametrize, return_t_hat)


def _variants_strategy(tier):
    return st.fixed_dictionaries({
        "family": st.just("variants"),
        "cls": st.sampled_from(["R", "R", "NR"]),
        "nc": st.sampled_from([1, 2, 2]),
        "np": st.sampled_from([1, 2]),
        "L": st.sampled_from([0, 1]),
        "phsp": st.sampled_from(kmat.REAL_ABOVE_THRESHOLD),
        "order": st.permutations([0, 1, 2, 3]),
        "clear_cache": st.sampled_from([False, False, False, True]),
        "point_seed": st.lists(st.integers(0, 255), min_size=6, max_size=6),
        "batch": st.just(BATCH[tier]),
    })


def strategy(tier):
    main = _main_strategy(tier)
    return st.one_of(main, main, main, main, _variants_strategy(tier))


def _main_strategy(tier):
    return st.fixed_dictionaries({
        "config": _config_strategy(tier),
        "regime": st.sampled_from([
            "generic", "generic", "near_threshold", "near_pole", "wide", "degenerate",
            "subthreshold_pole", "subthreshold_pole",
        ]),
        # six bytes instead of one big integer (Hypothesis draws big integers mostly below 2^16 and repeats them)
        "point_seed": st.lists(st.integers(0, 255), min_size=6, max_size=6),
        "batch": st.just(BATCH[tier]),
    })


def fixed_cases(tier):
    # smallest witness of the sub-threshold finding + its symmetric sibling above threshold
    return [
        {"config": _cfg("R", 1, 1, 0, "1", "PhaseSpaceFactorComplex", "doit"), "regime": "subthreshold_pole",
         "point_seed": 0, "batch": 1},
        {"config": _cfg("R", 1, 1, 0, "1", "PhaseSpaceFactorComplex", "doit"), "regime": "generic",
         "point_seed": 0, "batch": 64},
        # call histories over the flag combinations (T-hat requested before / after T, cache kept / cleared)
        *[
            {"family": "variants", "cls": "R", "nc": 2, "np": 1, "L": 0, "phsp": "PhaseSpaceFactor",
             "order": order, "clear_cache": True, "point_seed": 1, "batch": 64}
            for order in ([3, 2, 1, 0], [0, 1, 2, 3], [1, 0, 3, 2])
        ],
        {"family": "variants", "cls": "NR", "nc": 2, "np": 2, "L": 0, "phsp": "PhaseSpaceFactor",
         "order": [2, 0, 1, 3], "clear_cache": False, "point_seed": 2, "batch": 64},
        *([{"family": "variants", "cls": "R", "nc": 3, "np": 1, "L": 0, "phsp": "PhaseSpaceFactor",
            "order": [3, 2, 0, 1], "clear_cache": False, "point_seed": 3, "batch": 64}] if tier == "thorough" else []),
    ]


# ----------------------------------------------------------------------- compile
def _radius(d: str):
    if d == "sym":
        return kmat.library_symbols()["d"]
    return sp.Rational(d)


@functools.lru_cache(maxsize=48)
def _compiled(cls, nc, npo, ell, d, phsp, route):
    from ampform.dynamics import kmatrix  # noqa: PLC0415

    if cls == "NR":
        matrix = under_test(
            "NonRelativisticKMatrix.formulate", kmatrix.NonRelativisticKMatrix.formulate,
            n_channels=nc, n_poles=npo,
        )
    else:
        matrix = under_test(
            "RelativisticKMatrix.formulate", kmatrix.RelativisticKMatrix.formulate,
            n_channels=nc, n_poles=npo, angular_momentum=ell, meson_radius=_radius(d),
            phsp_factor=kmat.phsp_by_name(phsp),
        )
    if tuple(matrix.shape) != (nc, nc):
        return ("shape", tuple(matrix.shape))
    try:
        return under_test("doit+lambdify", kmat.compile_matrix, matrix, route, (nc, npo),
                          allowed=(kmat.CompileError,))
    except kmat.CompileError as exc:
        return ("symbols", str(exc))


# ----------------------------------------------------------------------- the case
def _subthreshold(vals) -> np.ndarray:
    """Per point: a pole lies below the threshold of a channel it couples to (gamma != 0)."""
    thr = vals["m_a"] + vals["m_b"]  # (B, i)
    below = vals["m"][:, :, None] < thr[:, None, :]  # (B, R, i)
    return (below & (vals["gamma"] != 0)).any(axis=(1, 2))


def _point(vals, k) -> dict:
    return {name: np.asarray(arr)[k].tolist() for name, arr in vals.items()}


def run_case(desc) -> Result:
    if desc.get("family") == "variants":
        return _run_variants(desc)
    cfg = desc["config"]
    nc, npo, rel = cfg["nc"], cfg["np"], cfg["cls"] == "R"
    regime = desc["regime"]
    if not rel and regime in {"near_threshold", "subthreshold_pole"}:
        regime = "generic"  # no thresholds in the non-relativistic parametrisation
    labels = [
        f"cls={cfg['cls']}", f"channels={nc}", f"poles={npo}", f"regime={regime}", f"route={cfg['route']}",
    ]
    if rel:
        labels += [f"L={cfg['L']}", f"d={cfg['d']}", f"phsp={cfg['phsp']}"]
    comp = _compiled(cfg["cls"], nc, npo, cfg["L"], cfg["d"], cfg["phsp"], cfg["route"])
    if isinstance(comp, tuple):
        return violation(f"bad_{comp[0]}", True, labels, got=comp[1])
    vals = kmat.draw_points(desc["point_seed"], regime, nc, npo, int(desc["batch"]))
    if cfg["d"] != "sym":
        vals["d"] = np.full_like(vals["s"], float(sp.Rational(cfg["d"])))
    t = comp(vals)
    finite = np.isfinite(t).all(axis=(1, 2))
    if not finite.all():
        labels.append("complex_inputs_needed")
        t_c = comp(vals, as_complex=True)
        t = np.where(finite[:, None, None], t, t_c)
        finite = np.isfinite(t).all(axis=(1, 2))
    sub = _subthreshold(vals) if rel else np.zeros(len(finite), dtype=bool)
    if cfg["phsp"] == "PhaseSpaceFactorAbs" and cfg["L"] == 0:
        # the one variant whose widths stay real below threshold (rho_hat >= 0, B_0 = 1): the open
        # finding does not apply, sub-threshold poles are asserted like every other point
        if sub.any():
            labels.append("pole_below_threshold:asserted(Abs,L=0)")
        sub = np.zeros(len(finite), dtype=bool)
    above = kmat.poles_above_thresholds(vals) if rel else np.ones(len(finite), dtype=bool)
    if not finite.all():
        k = int(np.flatnonzero(~finite)[0])
        kind = "non_finite_subthreshold_pole" if sub[k] else "non_finite"
        extra = {"region": "pole_below_threshold"} if sub[k] else {}
        return violation(kind, True, labels, point=_point(vals, k), **extra)

    with np.errstate(all="ignore"):
        kp = kmat.ref_k_unitary(vals, relativistic=rel, phsp=cfg["phsp"], ell=cfg["L"])
        kmax = np.abs(kp).max(axis=(1, 2))
    kmax = np.where(np.isfinite(kmax), np.maximum(kmax, 1.0), np.inf)
    cond = kmax ** max(nc - 1, 0)
    eye = np.eye(nc)
    s_mat = eye + 2j * t
    unit = np.abs(np.einsum("bji,bjk->bik", s_mat.conj(), s_mat) - eye).max(axis=(1, 2))
    sym = np.abs(t - t.transpose(0, 2, 1)).max(axis=(1, 2))
    tnorm = np.abs(t).max(axis=(1, 2))
    tol_u = TOL_UNITARY * cond
    tol_s = TOL_SYMMETRIC * np.maximum(tnorm, 1e-300) * cond
    asserted = cond * TOL_UNITARY <= VACUOUS
    dist = kmat.pole_distance(vals)
    n_near = int((dist < NEAR_POLE).sum())
    if n_near:
        labels.append("near_pole<1e-3")
    if (~asserted).any():
        labels.append("vacuous_points")
    if sub.any():
        labels.append("pole_below_threshold")
    if (~above & ~sub).any():
        labels.append("pole_below_threshold_of_decoupled_channel")
    bad_sym = asserted & (sym > tol_s)
    bad_unit = asserted & ~sub & (unit > tol_u)
    bad_sub = asserted & sub & (unit > tol_u)
    n_ok = int((asserted & ~sub).sum())
    nontrivial = (nc >= 2 or npo >= 2) and int(asserted.sum()) >= 20

    def detail(k, got, tol):
        return {
            "got": float(got[k]), "tolerance": float(tol[k]), "cond": float(cond[k]),
            "pole_distance": float(dist[k]), "index": k, "point": _point(vals, k),
            "T": [[repr(complex(x)) for x in row] for row in t[k]],
        }

    if bad_unit.any():
        k = int(np.flatnonzero(bad_unit)[np.argmax((unit / tol_u)[bad_unit])])
        return violation("not_unitary", nontrivial, labels, n_bad=int(bad_unit.sum()), **detail(k, unit, tol_u))
    if bad_sym.any():
        k = int(np.flatnonzero(bad_sym)[np.argmax((sym / tol_s)[bad_sym])])
        return violation("not_symmetric", nontrivial, labels, n_bad=int(bad_sym.sum()), **detail(k, sym, tol_s))
    if bad_sub.any():
        k = int(np.flatnonzero(bad_sub)[np.argmax((unit / tol_u)[bad_sub])])
        return violation(
            "not_unitary_subthreshold_pole", nontrivial, labels, region="pole_below_threshold",
            n_bad=int(bad_sub.sum()), n_subthreshold=int(sub.sum()), **detail(k, unit, tol_u),
        )
    with np.errstate(all="ignore"):
        worst_u = float(np.max(np.where(asserted, unit / tol_u, 0.0)))
        worst_s = float(np.max(np.where(asserted, sym / tol_s, 0.0)))
    return ok(
        nontrivial, labels, points=len(finite), asserted_above_threshold=n_ok, subthreshold=int(sub.sum()),
        vacuous=int((~asserted).sum()), near_pole=n_near, worst_unitarity_over_tol=worst_u,
        worst_symmetry_over_tol=worst_s, max_cond=float(np.max(np.where(asserted, cond, 1.0))),
    )


# ----------------------------------------------------------------------- flag variants and call histories
def _unitarity_defect(t):
    n = t.shape[-1]
    s_mat = np.eye(n) + 2j * t
    unit = np.abs(np.einsum("bji,bjk->bik", s_mat.conj(), s_mat) - np.eye(n)).max(axis=(1, 2))
    sym = np.abs(t - t.transpose(0, 2, 1)).max(axis=(1, 2))
    return unit, sym


@functools.lru_cache(maxsize=64)
def _compile_variant(matrix, nc, npo):
    """`matrix` is an ImmutableMatrix: equal matrices (whatever history produced them) share one compilation."""
    return kmat.compile_matrix(matrix, "compose", (nc, npo))


def _eval_symbolic(matrix, nc, k_num, rho_num):
    """Numeric value of an unparametrised matrix in the symbols K[i, j] and rho<i>; None + names if it has others."""
    plain = {}
    for atom in sorted(matrix.atoms(sp.Indexed), key=str):
        idx = atom.indices
        if str(atom.base) == "K" and len(idx) == 2 and all(i.is_Integer and 0 <= int(i) < nc for i in idx):
            plain[atom] = sp.Symbol(f"_k_{int(idx[0])}_{int(idx[1])}")
    exprs = [e.xreplace(plain) for e in matrix]
    k_syms = [sp.Symbol(f"_k_{i}_{j}") for i in range(nc) for j in range(nc)]
    rho_syms = [sp.Symbol(f"rho{i}") for i in range(nc)]
    args = [*k_syms, *rho_syms]
    extra = set().union(*[e.free_symbols for e in exprs]) - set(args)
    if extra:
        return None, sorted(map(str, extra))
    fn = sp.lambdify(args, exprs, "numpy", cse=True)
    vals = [k_num[:, i, j].astype(complex) for i in range(nc) for j in range(nc)]
    vals += [rho_num[:, i].astype(complex) for i in range(nc)]
    with np.errstate(all="ignore"):
        out = fn(*vals)
    batch = len(k_num)
    out = np.stack([np.broadcast_to(np.asarray(v, dtype=complex), (batch,)) for v in out], axis=-1)
    return out.reshape((batch, nc, nc)), None


def _run_variants(desc) -> Result:
    """`formulate` with every combination of `parametrize` / `return_t_hat`, called in a drawn order on a kept or
    cleared `_create_matrices` cache.  Unparametrised matrices are evaluated on random real symmetric K and
    positive rho; the parametrised T-hat on real points above every threshold.  Asserted: S-matrix unitarity and
    symmetry of T and of sqrt(rho)^* T-hat sqrt(rho) (the documented relation), and that both agree."""
    from ampform.dynamics import kmatrix  # noqa: PLC0415

    rel = desc["cls"] == "R"
    nc, npo, ell, phsp = desc["nc"], desc["np"], desc["L"], desc["phsp"]
    order = [int(k) for k in desc["order"]]
    klass = kmatrix.RelativisticKMatrix if rel else kmatrix.NonRelativisticKMatrix
    labels = [
        "family=variants", f"cls={desc['cls']}", f"channels={nc}", f"poles={npo}", f"first_call={VARIANT_FLAGS[order[0]]}",
        f"cache={'cleared' if desc['clear_cache'] else 'kept'}",
    ]
    if desc["clear_cache"]:
        clear = getattr(getattr(klass, "_create_matrices", None), "cache_clear", None)
        if clear is not None:
            clear()
    got = {}
    for idx in order:
        param, that = VARIANT_FLAGS[idx]
        if that and not rel:
            continue
        kwargs = {"n_channels": nc, "n_poles": npo, "parametrize": param}
        if rel:
            kwargs.update(return_t_hat=that, angular_momentum=ell, meson_radius=1, phsp_factor=kmat.phsp_by_name(phsp))
        m = under_test(f"{klass.__name__}.formulate", klass.formulate, **kwargs)
        if tuple(m.shape) != (nc, nc):
            return violation("bad_shape", True, labels, got=tuple(m.shape), flags=[param, that])
        got[param, that] = sp.ImmutableMatrix(m)  # what the caller received at that moment

    rng = np.random.default_rng(kmat.seed_entropy(desc["point_seed"], 909))
    batch = int(desc["batch"])
    a = rng.uniform(-1, 1, (batch, nc, nc)) * 10.0 ** rng.uniform(-1, 1, (batch, 1, 1))
    k_num = (a + a.transpose(0, 2, 1)) / 2
    rho_num = rng.uniform(0.05, 1.0, (batch, nc)) if rel else np.ones((batch, nc))
    sq = np.sqrt(rho_num)
    # conditioning of the inversion, from the inputs alone
    mat = np.eye(nc) - 1j * rho_num[:, :, None] * k_num
    cond = np.linalg.cond(mat) ** nc
    tol = 1e-10 * cond
    asserted = tol <= VACUOUS

    def fail(kind, k, value, **extra):
        return violation(kind, True, labels, got=float(value[k]), tolerance=float(tol[k]), index=k,
                         K=k_num[k].tolist(), rho=rho_num[k].tolist(), order=order, **extra)

    t_sym, extra = _eval_symbolic(got[False, False], nc, k_num, rho_num)
    if t_sym is None:
        return violation("bad_symbols", True, labels, got=extra, flags=[False, False])
    unit, sym = _unitarity_defect(t_sym)
    bad = asserted & ~(unit <= tol * np.maximum(1, np.abs(t_sym).max(axis=(1, 2))))
    if bad.any():
        return fail("not_unitary", int(np.flatnonzero(bad)[0]), unit, flags="parametrize=False")
    bad = asserted & ~(sym <= tol * np.maximum(1, np.abs(t_sym).max(axis=(1, 2))))
    if bad.any():
        return fail("not_symmetric", int(np.flatnonzero(bad)[0]), sym, flags="parametrize=False")
    worst = float(np.max(np.where(asserted, unit / tol, 0.0)))
    if rel:
        th_sym, extra = _eval_symbolic(got[False, True], nc, k_num, rho_num)
        if th_sym is None:
            return violation("bad_symbols", True, labels, got=extra, flags=[False, True])
        t_from_hat = sq[:, :, None] * th_sym * sq[:, None, :]
        scale = np.maximum(1, np.abs(t_from_hat).max(axis=(1, 2)))
        unit, sym = _unitarity_defect(t_from_hat)
        bad = asserted & ~(unit <= tol * scale)
        if bad.any():
            return fail("not_unitary", int(np.flatnonzero(bad)[0]), unit, flags="parametrize=False,return_t_hat=True")
        bad = asserted & ~(sym <= tol * scale)
        if bad.any():
            return fail("not_symmetric", int(np.flatnonzero(bad)[0]), sym, flags="parametrize=False,return_t_hat=True")
        diff = np.abs(t_from_hat - t_sym).max(axis=(1, 2))
        bad = asserted & ~(diff <= tol * scale)
        if bad.any():
            return fail("t_hat_inconsistent", int(np.flatnonzero(bad)[0]), diff, flags="parametrize=False")
        worst = max(worst, float(np.max(np.where(asserted, unit / tol, 0.0))))

    # parametrised matrices on real points above every threshold, poles above every threshold
    vals = kmat.draw_points(desc["point_seed"], "generic", nc, npo, batch)
    vals["d"] = np.ones_like(vals["s"])
    n_param = 0
    t_param = None
    for flags in ((True, False), (True, True)):
        if flags not in got:
            continue
        try:
            comp = under_test("doit+lambdify", _compile_variant, got[flags], nc, npo, allowed=(kmat.CompileError,))
        except kmat.CompileError as exc:
            return violation("bad_symbols", True, labels, got=str(exc), flags=list(flags))
        t = comp(vals)
        finite = np.isfinite(t).all(axis=(1, 2))
        if not finite.all():
            t = np.where(finite[:, None, None], t, comp(vals, as_complex=True))
        if flags[1]:
            with np.errstate(all="ignore"):
                sq_ref = np.sqrt(kmat.rho_ref(phsp, vals["s"][:, None], vals["m_a"], vals["m_b"]))
            t = sq_ref.conj()[:, :, None] * t * sq_ref[:, None, :]
        with np.errstate(all="ignore"):
            kp = kmat.ref_k_unitary(vals, relativistic=rel, phsp=phsp, ell=ell)
            kmax = np.abs(kp).max(axis=(1, 2))
        kmax = np.where(np.isfinite(kmax), np.maximum(kmax, 1.0), np.inf)
        pcond = kmax ** max(nc - 1, 0)
        ok_pts = (pcond * TOL_UNITARY <= VACUOUS) & (kmat.poles_above_thresholds(vals) if rel else True)
        ok_pts = ok_pts & np.isfinite(t).all(axis=(1, 2))
        unit, sym = _unitarity_defect(np.where(ok_pts[:, None, None], t, 0))
        tnorm = np.maximum(np.abs(t).max(axis=(1, 2)), 1e-300)
        bad = ok_pts & ~(unit <= TOL_UNITARY * pcond)
        if bad.any():
            k = int(np.flatnonzero(bad)[0])
            return violation("not_unitary", True, labels, got=float(unit[k]), tolerance=float(TOL_UNITARY * pcond[k]),
                             flags=f"parametrize=True,return_t_hat={flags[1]}", point=_point(vals, k), order=order)
        bad = ok_pts & ~(sym <= TOL_SYMMETRIC * tnorm * pcond)
        if bad.any():
            k = int(np.flatnonzero(bad)[0])
            return violation("not_symmetric", True, labels, got=float(sym[k]), flags=f"parametrize=True,return_t_hat={flags[1]}",
                             tolerance=float(TOL_SYMMETRIC * tnorm[k] * pcond[k]), point=_point(vals, k), order=order)
        if flags[1] and t_param is not None:
            diff = np.abs(t - t_param).max(axis=(1, 2))
            bad = ok_pts & ~(diff <= TOL_UNITARY * pcond * np.maximum(1, tnorm))
            if bad.any():
                k = int(np.flatnonzero(bad)[0])
                return violation("t_hat_inconsistent", True, labels, got=float(diff[k]), flags="parametrize=True",
                                 tolerance=float(TOL_UNITARY * pcond[k] * max(1, tnorm[k])), point=_point(vals, k),
                                 order=order)
        if not flags[1]:
            t_param = t
        n_param += int(ok_pts.sum())
    nontrivial = nc >= 2 and int(asserted.sum()) >= 20 and n_param >= 20
    return ok(nontrivial, labels, points=batch, asserted_unparametrised=int(asserted.sum()),
              asserted_parametrised=n_param, worst_unitarity_over_tol=worst)
