"""C13 — dynamics attach to the right decay with the right variables and defaults.

Hypothesis rule-based state machine over one generated reaction: rules assign lineshape
builders by parent name, by ``Particle``, by ``(transition, node)``, by ``TwoBodyDecay`` and
through the deprecated ``set_dynamics``; builders are the public ones and a *probe* builder
(documented custom-builder protocol) that returns uninterpreted functions of exactly the
variables it was given.  The harness keeps its own model ``decay key -> builder`` (last
write wins) and, on ``formulate``, requires every chain component to be the dynamics-free
component times the product over its nodes of the model's builder evaluated on that node's
own variables (derived here from the topology, not from ampform).
"""

from __future__ import annotations

import json

import numpy as np
import sympy as sp
from hypothesis import strategies as st
from hypothesis.stateful import RuleBasedStateMachine, initialize, rule

from vp.gen.config import BUILDER_NAMES, get_dynamics_builder
from vp.gen.reactions import build_reaction, children_of, parent_of, reaction_strategy
from vp.harness import Result, ok, skip, violation
from vp.ref import helicity as ref

PROPERTY = "C13"
RULE = (
    "Rule-based state machine on a generated reaction with 1-3 resonances (1-3 topologies, optionally identical"
    " final-state particles, both formalisms): assignment rules (name / Particle / (transition,node) / TwoBodyDecay /"
    " deprecated set_dynamics) with the 8 public builder configurations and a probe builder, configuration rules"
    " (use_helicity_couplings, scalar_initial_state_mass, stable_final_state_ids on/off), then formulate. Non-trivial:"
    " >= 2 assignments whose selections overlap, or the same resonance occurs in >= 2 topologies. Distinct = hash of"
    " (reaction, operation list)."
)
ASSUMPTIONS = [
    "selection semantics as documented: a name/Particle selects every decay whose parent has that name; a"
    " (transition,node)/TwoBodyDecay selects the decays equal to that one (same ids, particles, helicities, interaction)",
    "node variables: incoming mass symbol m_<attached final ids of the decaying edge>, daughter masses likewise, L ="
    " interaction.l_magnitude if given, else the integer spin of the parent, else None (documented fallback)",
    "component comparison is structural (sympy ==), with a numeric fallback at 3 random points (1e-9) when sympy's"
    " automatic simplification reorders factors; ValueError 'Angular momentum is not defined' of form-factor builders"
    " without L is the documented contract",
    "with identical final-state particles the symmetrised copies share component names, so only the probe-term"
    " consistency is asserted there",
]
BUDGET = {
    "quick": {"examples": 240, "shards": 16, "cap_s": 150, "shrink_calls": 40, "shrink_s": 120, "steps": 8, "case_timeout_s": 90},
    "thorough": {"examples": 3200, "shards": 16, "cap_s": 2400, "shrink_calls": 120, "shrink_s": 300, "steps": 14, "case_timeout_s": 300},
}
PROBE = len(BUILDER_NAMES)  # builder index of the probe

probe = sp.Function("probe")
ltag = sp.Function("Ltag")
LOG: list = []


def probe_builder(resonance, variable_pool):
    """Custom builder following the documented protocol; records what it was given."""
    ell = variable_pool.angular_momentum
    expr = probe(
        sp.Symbol(f"id_{resonance.name}"), variable_pool.incoming_state_mass, variable_pool.outgoing_state_mass1,
        variable_pool.outgoing_state_mass2,
    ) * ltag(-1 if ell is None else ell)
    par = sp.Symbol(f"p_{{{resonance.name}}}", real=True)
    return expr * par, {par: resonance.mass}


def builder_for(index):
    if index == PROBE:
        return "probe", probe_builder
    return get_dynamics_builder(index)


# ----------------------------------------------------------------------- independent decay keys
def decay_key(t, node):
    topo = t.topology
    par = parent_of(topo, node)
    a, b = children_of(topo, node)
    inter = t.interactions[node]
    return (
        (par, t.states[par].particle.name, str(t.states[par].spin_projection)),
        (a, t.states[a].particle.name, str(t.states[a].spin_projection)),
        (b, t.states[b].particle.name, str(t.states[b].spin_projection)),
        (str(inter.l_magnitude), str(inter.s_magnitude), str(inter.l_projection), str(inter.s_projection), str(inter.parity_prefactor)),
    )


def node_variables(t, node):
    """(incoming mass symbol, daughter mass symbols, L) from the topology alone."""
    topo = t.topology
    par = parent_of(topo, node)
    a, b = children_of(topo, node)
    m_in = sp.Symbol(ref.mass_name(topo, par), nonnegative=True)
    m_a = sp.Symbol(ref.mass_name(topo, a), nonnegative=True)
    m_b = sp.Symbol(ref.mass_name(topo, b), nonnegative=True)
    inter = t.interactions[node]
    ell = inter.l_magnitude
    if ell is None:
        spin = t.states[par].particle.spin
        if spin.denominator == 1:
            ell = int(spin)
    a_phi, a_theta = ref.angle_names(topo, a)
    return m_in, m_a, m_b, ell, sp.Symbol(a_phi, real=True), sp.Symbol(a_theta, real=True)


class History:
    def __init__(self, rdesc) -> None:
        import ampform  # noqa: PLC0415

        self.desc = {"reaction": rdesc, "ops": []}
        self.labels: set[str] = set()
        self.result: Result | None = None
        self.dead = False
        built = build_reaction(rdesc)
        if built is None:
            self.dead = True
            return
        self.built = built
        self.reaction = built.reaction
        self.builder = ampform.get_builder(self.reaction)
        self.model: dict = {}  # decay key -> builder index
        self.config: dict = {}  # builder.config attribute -> value (applied to the dynamics-free twin as well)
        self.touched: list[set] = []
        self.keys = {}
        for t in self.reaction.transitions:
            for node in t.topology.nodes:
                self.keys[decay_key(t, node)] = (t, node)
        self.parents = sorted({k[0][1] for k in self.keys})
        self.checked = 0
        self.identical = bool(ref.identical_groups(self.reaction.transitions[0]))

    # ---- operations --------------------------------------------------------------------
    def apply(self, op) -> None:  # noqa: C901
        if self.dead or self.result is not None:
            return
        self.desc["ops"].append(op)
        kind = op[0]
        if kind == "formulate":
            self.check()
            return
        if kind == "config":
            self.configure(self.builder, op[1], op[2])
            self.config[op[1]] = op[2]
            self.labels.add(f"config:{op[1]}={op[2]}")
            return
        from ampform.helicity.decay import TwoBodyDecay  # noqa: PLC0415

        sel, target, bidx = op[1], op[2], op[3]
        name, dyn = builder_for(bidx)
        self.labels.add(f"builder:{name}")
        if sel in {"name", "particle", "set_dynamics"}:
            pname = self.parents[target % len(self.parents)]
            selected = {k for k in self.keys if k[0][1] == pname}
            if sel == "name":
                self.builder.dynamics.assign(pname, dyn)
            elif sel == "particle":
                particle = next(
                    s.particle for t in self.reaction.transitions for s in t.states.values() if s.particle.name == pname
                )
                self.builder.dynamics.assign(particle, dyn)
            else:
                import warnings  # noqa: PLC0415

                with warnings.catch_warnings():
                    warnings.simplefilter("ignore")
                    self.builder.set_dynamics(pname, dyn)
        else:
            keys = sorted(self.keys)
            key = keys[target % len(keys)]
            t, node = self.keys[key]
            selected = {key}
            if sel == "node":
                self.builder.dynamics.assign((t, node), dyn)
            else:
                self.builder.dynamics.assign(TwoBodyDecay.from_transition(t, node), dyn)
        self.labels.add(f"select:{sel}")
        for k in selected:
            self.model[k] = bidx
        self.touched.append(selected)

    def configure(self, builder, name, value) -> None:
        if name == "stable_final_state_ids":
            value = sorted(self.reaction.final_state) if value else None
        setattr(builder.config, name, value)

    # ---- oracle ------------------------------------------------------------------------------
    def expected_factor(self, t, node):
        key = decay_key(t, node)
        bidx = self.model.get(key)
        if bidx is None:
            return sp.S.One, {}
        from ampform.dynamics.builder import TwoBodyKinematicVariableSet  # noqa: PLC0415

        _, dyn = builder_for(bidx)
        m_in, m_a, m_b, ell, phi, theta = node_variables(t, node)
        pool = TwoBodyKinematicVariableSet(
            incoming_state_mass=m_in, outgoing_state_mass1=m_a, outgoing_state_mass2=m_b,
            helicity_theta=theta, helicity_phi=phi, angular_momentum=ell,
        )
        par = parent_of(t.topology, node)
        return dyn(t.states[par].particle, pool)

    def check(self) -> None:  # noqa: C901, PLR0912, PLR0914, PLR0915
        import ampform  # noqa: PLC0415

        labels = self.labels
        overlapping = any(
            self.touched[i] & self.touched[j] for i in range(len(self.touched)) for j in range(i + 1, len(self.touched))
        )
        topo_by_parent: dict = {}
        for k, (t, _node) in self.keys.items():
            topo_by_parent.setdefault(k[0][1], set()).add(t.topology)
        same_res_in_two_topologies = any(len(v) >= 2 and name != "X" for name, v in topo_by_parent.items())
        nontrivial = overlapping or same_res_in_two_topologies
        if overlapping:
            labels.add("overlapping_assignments")
        if same_res_in_two_topologies:
            labels.add("resonance_in_several_topologies")
        # expected factors first: a form-factor builder without L is the documented ValueError
        expected = {}
        expected_defaults: dict = {}
        contract = False
        for t in self.reaction.transitions:
            for node in sorted(t.topology.nodes):
                try:
                    expr, pars = self.expected_factor(t, node)
                except ValueError as exc:
                    if "Angular momentum is not defined" in str(exc):
                        contract = True
                        continue
                    raise
                expected[(id(t), node)] = expr
                particle = t.states[parent_of(t.topology, node)].particle
                # the expected factor comes from the library's own builder: what it does with the variables it was
                # handed is checked here, independently (a form factor / energy-dependent width is a function of
                # the node's own three masses; a builder that drops or doubles one of them is caught)
                bidx = self.model.get(decay_key(t, node))
                if bidx is not None and bidx != PROBE:
                    bname = builder_for(bidx)[0]
                    m_in, m_a, m_b = node_variables(t, node)[:3]
                    needed = {m_in} if bname in {"relativistic_breit_wigner"} else {m_in, m_a, m_b}
                    if bname == "non_dynamic":
                        needed = set()
                    missing = needed - sp.sympify(expr).free_symbols
                    foreign = {
                        x for x in sp.sympify(expr).free_symbols if x.name.startswith("m_") and not x.name.startswith("m_{")
                    } - {m_in, m_a, m_b}
                    if missing or foreign:
                        self.result = violation(
                            "builder_expression_has_wrong_node_variables", nontrivial, sorted(labels), builder=bname,
                            missing=sorted(map(str, missing)), foreign=sorted(map(str, foreign)), expr=str(expr)[:300],
                        )
                        return
                    labels.add("builder_variables_checked")
                for p, v in pars.items():
                    # documented defaults of the public builders: the resonance's own mass and width, radius 1
                    # (taken from the particle, not from what the builder object returns: it may remember)
                    documented = {"m_{": particle.mass, "\\Gamma_{": particle.width, "d_{": 1}
                    want = next((val for prefix, val in documented.items() if p.name.startswith(prefix)), None)
                    if want is not None and self.model.get(decay_key(t, node)) != PROBE and v != want:
                        self.result = violation(
                            "builder_default_is_not_the_particle_property", nontrivial, sorted(labels), parameter=p.name,
                            got=v, want=want, particle=particle.name,
                        )
                        return
                    expected_defaults.setdefault(p, set()).add(v)
        try:
            model = self.builder.formulate()
        except ValueError as exc:
            if contract and "Angular momentum is not defined" in str(exc):
                labels.add("form_factor_contract")
                self.checked += 1
                return
            self.result = violation("raises:formulate", nontrivial, sorted(labels), message=str(exc)[:200], expected_contract=contract)
            return
        if contract:
            self.result = violation("form_factor_without_L_did_not_raise", nontrivial, sorted(labels))
            return
        plain_builder = ampform.get_builder(self.reaction)
        for name, value in self.config.items():
            self.configure(plain_builder, name, value)
        plain = plain_builder.formulate()
        naming = self.builder.naming
        self.checked += 1
        if not self.identical:
            for t in self.reaction.transitions:
                name = "A_{" + naming.generate_amplitude_name(t) + "}"
                want = plain.components[name]
                for node in sorted(t.topology.nodes):
                    want = want * expected[(id(t), node)]
                got = model.components[name]
                if got != want and not _numerically_equal(got, want):
                    self.result = violation(
                        "component_is_not_plain_component_times_node_dynamics", nontrivial, sorted(labels),
                        component=name, got=str(got)[:300], want=str(want)[:300],
                        builders=[builder_for(self.model[decay_key(t, n)])[0] if decay_key(t, n) in self.model else None
                                  for n in sorted(t.topology.nodes)],
                    )
                    return
        else:
            labels.add("identical_particles")
        # probe terms: every probe atom must carry the variables of the chain it multiplies
        for amp in model.amplitudes.values():
            for term in sp.Add.make_args(sp.expand(amp) if False else amp):
                for atom in term.atoms(probe):
                    m_in = atom.args[1].name
                    m_a, m_b = atom.args[2].name, atom.args[3].name
                    ids_in = m_in[2:]
                    if sorted(m_a[2:] + m_b[2:]) != sorted(ids_in):
                        self.result = violation("probe_got_inconsistent_masses", nontrivial, sorted(labels), atom=str(atom))
                        return
                    # the chain this term belongs to is identified by its angle symbols
                    angle_labels = {s.name.split("_", 1)[1] for s in term.free_symbols if s.name.startswith(("phi_", "theta_"))}
                    if angle_labels:
                        first = {lab.split("^")[0] for lab in angle_labels}
                        if m_a[2:] not in first and m_b[2:] not in first:
                            self.result = violation(
                                "probe_masses_belong_to_another_chain", nontrivial, sorted(labels), atom=str(atom),
                                angles=sorted(angle_labels),
                            )
                            return
        # every chain (also a symmetrised copy) that contains a parent whose decays all carry the
        # probe must contain exactly one probe atom of that parent
        probed_parents = sorted(
            name for name in self.parents
            if all(self.model.get(k) == PROBE for k in self.keys if k[0][1] == name)
        )
        chain_parents = {}
        for t in self.reaction.transitions:
            chain_parents[t.topology] = {t.states[parent_of(t.topology, n)].particle.name for n in t.topology.nodes}
        if len({frozenset(v) for v in chain_parents.values()}) == 1 and probed_parents:
            present = next(iter(chain_parents.values()))
            for amp in model.amplitudes.values():
                if amp == 0:
                    continue
                for term in sp.Add.make_args(amp):
                    for name in probed_parents:
                        if name not in present:
                            continue
                        n_atoms = sum(1 for a in term.atoms(probe) if a.args[0].name == f"id_{name}")
                        if n_atoms != 1:
                            self.result = violation(
                                "chain_without_its_assigned_dynamics", nontrivial, sorted(labels), parent=name,
                                n_probe_atoms=n_atoms, term=str(term)[:300], identical_particles=self.identical,
                            )
                            return
            labels.add("probe_presence_checked")
        # parameter defaults
        for p, vals in expected_defaults.items():
            if len(vals) != 1:
                continue  # the documented collision warning case (not generated: unique names)
            (v,) = vals
            if p not in model.parameter_defaults:
                self.result = violation("parameter_default_missing", nontrivial, sorted(labels), parameter=p.name)
                return
            if model.parameter_defaults[p] != v:
                self.result = violation(
                    "parameter_default_differs", nontrivial, sorted(labels), parameter=p.name,
                    got=model.parameter_defaults[p], want=v,
                )
                return
        self.nontrivial = nontrivial

    def verdict(self) -> Result:
        if self.dead:
            return skip("no_transitions")
        if self.result is not None:
            return self.result
        return ok(getattr(self, "nontrivial", False), sorted(self.labels), formulations_checked=self.checked, n_ops=len(self.desc["ops"]))


def _numerically_equal(a, b) -> bool:
    syms = sorted((a.free_symbols | b.free_symbols), key=str)
    rng = np.random.default_rng(12345)
    try:
        fa = sp.lambdify(syms, a.doit().replace(probe, lambda *x: sum(x[1:])).replace(ltag, lambda x: x + 2), "numpy")
        fb = sp.lambdify(syms, b.doit().replace(probe, lambda *x: sum(x[1:])).replace(ltag, lambda x: x + 2), "numpy")
        for _ in range(3):
            vals = [complex(rng.uniform(0.5, 2.0), 0) if not s.name.startswith(("C_", "H_")) else complex(rng.uniform(-1, 1), rng.uniform(-1, 1)) for s in syms]
            va, vb = complex(fa(*vals)), complex(fb(*vals))
            if not abs(va - vb) <= 1e-9 * max(1.0, abs(vb)):
                return False
    except Exception:  # noqa: BLE001
        return False
    return True


# ----------------------------------------------------------------------- Hypothesis machine
def _reaction(tier):
    ns = (3, 3, 4) if tier == "thorough" else (3, 3, 3, 4)
    return reaction_strategy(n_final=ns, max_topos=3, spin2_max=2, spin_k_max=2, max_transitions=20 if tier == "quick" else 60)


def machine(tier, report, gate):
    class DynamicsMachine(RuleBasedStateMachine):
        def __init__(self) -> None:
            super().__init__()
            self.active = gate()
            self.h: History | None = None

        @initialize(r=_reaction(tier))
        def init(self, r):
            if self.active:
                self.h = History(r)

        def do(self, op):
            if self.active and self.h is not None:
                self.h.apply(op)

        @rule(sel=st.sampled_from(["name", "name", "particle", "set_dynamics", "node", "decay"]), tgt=st.integers(0, 40),
              bidx=st.sampled_from([PROBE, PROBE, PROBE, *range(len(BUILDER_NAMES))]))
        def assign(self, sel, tgt, bidx):
            self.do(["assign", sel, tgt, bidx])
        @rule(name=st.sampled_from(["use_helicity_couplings", "use_helicity_couplings", "scalar_initial_state_mass",
                                    "stable_final_state_ids"]), value=st.booleans())
        def configure(self, name, value):
            self.do(["config", name, value])

        @rule()
        def formulate(self):
            self.do(["formulate"])

        def teardown(self):
            if self.active and self.h is not None:
                if not self.h.dead and self.h.result is None and (not self.h.desc["ops"] or self.h.desc["ops"][-1][0] != "formulate"):
                    self.h.apply(["formulate"])
                desc = json.loads(json.dumps(self.h.desc))
                desc["_result"] = self.h.verdict()
                report(desc)

    return DynamicsMachine


def run_case(desc) -> Result:
    h = History(desc["reaction"])
    for op in desc["ops"]:
        h.apply(op)
    return h.verdict()


def fixed_cases(tier):
    def fin(s2, m):
        return {"s2": s2, "P": 1, "m": m, "latex": 0}

    # D+ -> K- pi+ pi+ like: identical particles in different nodes, probe on the resonance (witness of F13)
    r = {
        "formalism": "helicity", "n": 3, "mu": 0.3, "final": [fin(0, 0.494), fin(0, 0.135), fin(0, 0.135)], "ident": [1, 2],
        "initial": {"k": 0, "P": 1, "eps": 0.1, "width": 0.0},
        "topos": [{"idx": 0, "perm": [1, 0, 2], "res": [{"k": 1, "P": 1, "eps": 0.1, "width": 0.1}], "pc": [False, False]}],
        "hel_init": 0, "hel_final": [0, 0, 0], "max_transitions": 40,
    }
    return [
        {"reaction": r, "ops": [["assign", "name", 0, PROBE], ["formulate"]]},
        {"reaction": r, "ops": [["assign", "name", 0, 2], ["assign", "name", 1, PROBE], ["formulate"]]},
        {"reaction": r, "ops": [["config", "use_helicity_couplings", True], ["assign", "name", 0, PROBE], ["formulate"]]},
    ]
