"""C04 — the unpolarised intensity is invariant under a global rotation of the event."""

from __future__ import annotations

import math

import numpy as np
from hypothesis import strategies as st

from vp.gen.config import DEFAULT_CONFIG, FormFactorContract, formulate, prepare
from vp.gen.events import euler, generate_events, rotate, rx, ry
from vp.gen.reactions import reaction_strategy, summarize
from vp.harness import Result, ok, skip, under_test, violation
from vp.numeric import ModelEvaluator
from vp.ref import frames

PROPERTY = "C04"
RULE = (
    "Hypothesis draws a synthetic reaction with COMPLETE helicity sets (no massless spin>=1 particle), 1-3 topologies,"
    " 3- and 4-body (and 2-body), an alignment choice (none / axis-angle / DPD 1-3), optional Breit-Wigner dynamics,"
    " Euler angles of the global rotation (incl. axis rotations and pi), an event seed (8 events) and a coupling seed."
    " The requirement is asserted for: one topology (any alignment), several topologies with spinless final state,"
    " several topologies with a spin alignment. Three targeted families: (01)2+(02)1 with one massive spin-1"
    " final particle under axis-angle alignment; a single (01)(23) topology whose two resonances both carry spin; a single cascade ((ab)c)d with a spin-1/2 final"
    " particle and spin >= 1 resonances (weight 1/7 each). Non-trivial: rotation by >= 0.1 rad about x or y and a spin >= 1 resonance"
    " or a spinful outer state. Distinct = descriptor hash."
)
ASSUMPTIONS = [
    "events from the sequential phase-space generator in vp/gen/events.py; rotation applied to all final-state momenta",
    "relative tolerance 1e-8 (1e-6 with DPD and a massless particle, where the zeta-angle cosines cancel)",
    "events on which the unrotated or rotated intensity is nan because a momentum is numerically on a frame's z axis"
    " are not asserted (counted)",
]
BUDGET = {
    "quick": {"examples": 160, "shards": 16, "cap_s": 120, "shrink_calls": 25, "shrink_s": 120, "case_timeout_s": 30},
    "thorough": {"examples": 3000, "shards": 16, "cap_s": 2400, "shrink_calls": 100, "shrink_s": 300, "case_timeout_s": 300},
}


def _rotation():
    generic = st.tuples(
        st.floats(-math.pi, math.pi, allow_nan=False), st.floats(0.0, math.pi, allow_nan=False),
        st.floats(-math.pi, math.pi, allow_nan=False),
    ).map(lambda t: ["euler", *t])
    special = st.sampled_from([["x", math.pi], ["y", math.pi], ["x", math.pi / 2], ["y", math.pi / 2], ["z", 1.0], ["y", 0.3]])
    return st.one_of(generic, generic, special)


def strategy(tier):
    thorough = tier == "thorough"
    rs = reaction_strategy(
        n_final=(2, 3, 3, 3, 4) if thorough else (2, 3, 3, 3, 3, 4), max_topos=3, complete_helicities=True,
        allow_identical=False, spin2_max=4 if thorough else 2, spin_k_max=2, max_transitions=96 if thorough else 24,
    )

    def with_config(r):
        spinful = any(fd["s2"] > 0 for fd in r["final"])
        if len(r["topos"]) >= 2 and spinful:
            aligns = ["axisangle", "axisangle"]  # unaligned sums of spinful topologies are outside the statement
        else:
            aligns = ["none", "none", "axisangle"]
        aligns = aligns + (["dpd1", "dpd2", "dpd3"] if r["n"] == 3 else [])
        if r["n"] >= 4 and not thorough:  # axis-angle sums over 3-node chains cost minutes
            aligns = [a for a in aligns if a != "axisangle"] or ["none"]
        return st.fixed_dictionaries({
            "reaction": st.just(r),
            "spin1_budget": st.just(2 if thorough else 1),
            "alignment": st.sampled_from(aligns),
            "bw": st.booleans(),
            "rotation": _rotation(),
            "event_seed": st.integers(0, 2**31 - 1),
            "coupling_seed": st.integers(0, 2**31 - 1),
        })

    # targeted family: two topologies without the F4 pattern ((01)2 + (02)1), one massive spin-1
    # final-state particle, axis-angle alignment — the configuration in which the Wigner rotations
    # of different chains must be mutually consistent (rare in the generic family)
    def targeted(args):
        spin1_at, k_init, k_res, p_res, rot, es, cs, bw = args
        finals = [{"s2": 2 if i == spin1_at else 0, "P": 1, "m": [0.135, 0.494, 0.938][i], "latex": 0} for i in range(3)]
        res = {"k": k_res, "P": p_res, "eps": 0.1, "width": 0.1}
        r = {
            "formalism": "helicity", "n": 3, "mu": 0.3, "final": finals, "ident": [],
            "initial": {"k": k_init, "P": 1, "eps": 0.3, "width": 0.0},
            "topos": [
                {"idx": 0, "perm": [2, 0, 1], "res": [dict(res)], "pc": [False, False]},  # (01)2
                {"idx": 0, "perm": [1, 0, 2], "res": [dict(res)], "pc": [False, False]},  # (02)1
            ],
            "hel_init": 0, "hel_final": [0, 0, 0], "max_transitions": 96,
        }
        return {"reaction": r, "spin1_budget": 1, "alignment": "axisangle", "bw": bw, "rotation": rot,
                "event_seed": es, "coupling_seed": cs}

    target = st.tuples(
        st.integers(0, 2), st.integers(0, 1), st.integers(1, 2 if thorough else 1), st.sampled_from([1, -1]), _rotation(),
        st.integers(0, 2**31 - 1), st.integers(0, 2**31 - 1), st.booleans(),
    ).map(targeted)
    # second targeted family: ONE topology (01)(23) whose two resonances both carry spin and both decay -- the
    # only place where the parent of a decay node is itself an "opposite helicity state" with spin; here the
    # helicity conventions of the two branches must fit together (unaligned: one topology is inside the
    # statement for any spins).  Rare in the generic family because 4-body reactions are expensive.
    def targeted4(args):
        k_init, k1, k2, par, spin1_at, perm, rot, es, cs, bw = args
        finals = [{"s2": 2 if i == spin1_at else 0, "P": 1 if i % 2 else -1, "m": [0.135, 0.494, 0.938, 0.548][i], "latex": 0}
                  for i in range(4)]
        res = [{"k": k1, "P": par[0], "eps": 0.1, "width": 0.1}, {"k": k2, "P": par[1], "eps": 0.3, "width": 0.1}]
        r = {
            "formalism": "helicity", "n": 4, "mu": 0.3, "final": finals, "ident": [],
            "initial": {"k": k_init, "P": 1, "eps": 0.3, "width": 0.0},
            "topos": [{"idx": 1, "perm": list(perm), "res": res, "pc": [False, False, False]}],
            "hel_init": 0, "hel_final": [0, 0, 0, 0], "max_transitions": 96,
        }
        return {"reaction": r, "spin1_budget": 1, "alignment": "none", "bw": bw, "rotation": rot,
                "event_seed": es, "coupling_seed": cs}

    target4 = st.tuples(
        st.integers(0, 2), st.integers(1, 2 if thorough else 1), st.integers(1, 2), st.tuples(st.sampled_from([1, -1]), st.sampled_from([1, -1])),
        st.sampled_from([-1, -1, 0, 3]), st.permutations([0, 1, 2, 3]), _rotation(),
        st.integers(0, 2**31 - 1), st.integers(0, 2**31 - 1), st.booleans(),
    ).map(targeted4)
    # third targeted family: ONE cascade topology ((ab)c)d with a spin-1/2 final particle, so that (depending on where
    # the permutation puts it) a half-integer intermediate state decays into a further resonance with spin; the
    # phases exp(-i lambda phi) of consecutive frames must then fit together (three-body decays never get there)
    def cascade(args):
        fermion_at, k_init, k1, k2, par, perm, rot, es, cs = args
        finals = [{"s2": 1 if i == fermion_at else 0, "P": 1 if i % 2 else -1, "m": [0.938, 0.494, 0.135, 0.548][i], "latex": 0}
                  for i in range(4)]
        res = [{"k": k1, "P": par[0], "eps": 0.1, "width": 0.1}, {"k": k2, "P": par[1], "eps": 0.3, "width": 0.1}]
        r = {
            "formalism": "helicity", "n": 4, "mu": 0.3, "final": finals, "ident": [],
            "initial": {"k": k_init, "P": 1, "eps": 0.3, "width": 0.0},
            "topos": [{"idx": 0, "perm": list(perm), "res": res, "pc": [False, False, False]}],
            "hel_init": 0, "hel_final": [0, 0, 0, 0], "max_transitions": 96,
        }
        return {"reaction": r, "spin1_budget": 1, "alignment": "none", "bw": False, "rotation": rot,
                "event_seed": es, "coupling_seed": cs}

    target_cascade = st.tuples(
        st.integers(0, 3), st.integers(0, 1), st.integers(1, 1), st.integers(1, 1),
        st.tuples(st.sampled_from([1, -1]), st.sampled_from([1, -1])), st.permutations([0, 1, 2, 3]), _rotation(),
        st.integers(0, 2**31 - 1), st.integers(0, 2**31 - 1),
    ).map(cascade)
    generic = rs.flatmap(with_config)
    return st.one_of(generic, generic, generic, generic, target, target4, target_cascade)


def rotation_matrix(spec):
    kind = spec[0]
    if kind == "euler":
        return euler(*spec[1:])
    if kind == "x":
        return rx(spec[1])
    if kind == "y":
        return ry(spec[1])
    from vp.gen.events import rz  # noqa: PLC0415

    return rz(spec[1])


def _demassless_spin(rdesc):
    """Complete helicity sets: a massless particle with spin >= 1 lacks projections."""
    r = dict(rdesc)
    r["final"] = [dict(fd, m=(0.135 if fd["m"] == 0.0 and fd["s2"] >= 2 else fd["m"])) for fd in rdesc["final"]]
    return r


def reaction_transitions(built):
    return built.reaction.transitions


def run_case(desc) -> Result:  # noqa: C901, PLR0911, PLR0912
    rdesc = _demassless_spin(desc["reaction"])
    config = dict(DEFAULT_CONFIG, alignment=desc["alignment"], axisangle_spin1_budget=desc.get("spin1_budget", 2))
    prepared = prepare(rdesc, config)
    if prepared is None:
        return skip("no_transitions")
    built, builder, reaction = prepared.built, prepared.builder, prepared.reaction
    info = summarize(built)
    n_topo = info["n_topologies"]
    t0 = built.reaction.transitions[0]
    final_spins = [t0.states[i].particle.spin for i in sorted(t0.final_states)]
    spinless_final = all(s == 0 for s in final_spins)
    labels = [f"n={rdesc['n']}", f"topologies={n_topo}", f"align={desc['alignment']}"]
    if not spinless_final:
        labels.append("spinful_final_state")
    # premise of the statement: every spin projection of every outer state occurs
    from vp.ref.spin import spin_range  # noqa: PLC0415

    for i in [*t0.initial_states, *sorted(t0.final_states)]:
        present = {t.states[i].spin_projection for t in reaction_transitions(built)}
        if present != set(spin_range(t0.states[i].particle.spin)):
            return skip("premise:incomplete_helicity_set", labels)
    if n_topo >= 2 and not spinless_final and desc["alignment"] == "none":
        return skip("outside_statement:several_topologies_spinful_unaligned", labels)
    if desc["bw"]:
        from ampform.dynamics.builder import create_relativistic_breit_wigner  # noqa: PLC0415

        names = sorted({s.particle.name for t in reaction.transitions for s in t.intermediate_states.values()})
        for name in names:
            under_test("dynamics.assign", builder.dynamics.assign, name, create_relativistic_breit_wigner)
        if names:
            labels.append("breit_wigner")
    try:
        model = formulate(prepared)
    except FormFactorContract:
        return skip("form_factor_needs_L", labels)

    # F4 pattern: a node whose stored direction is the opposite-helicity child's
    pattern = False
    for topo in built.topologies:
        for node in topo.nodes:
            a, _b = frames.children_of(topo, node)
            if frames.library_stores(topo, node) != a:
                pattern = True
    if pattern:
        labels.append("node_stores_opposite_child_direction")

    evaluator = under_test("lambdify_model", ModelEvaluator, model, prepared.id_offset)
    rng = np.random.default_rng(desc["coupling_seed"])
    params = evaluator.draw_parameters(rng)
    masses = {i: t0.states[i].particle.mass for i in sorted(t0.final_states)}
    (init_id,) = t0.topology.incoming_edge_ids
    total = t0.states[init_id].particle.mass
    momenta = generate_events(built.topologies[0], masses, total, 8, desc["event_seed"], edge=0.05)
    rot = rotation_matrix(desc["rotation"])
    rotated = rotate(momenta, rot)
    i0 = under_test("evaluate", evaluator, momenta, params)
    i1 = under_test("evaluate_rotated", evaluator, rotated, params)
    finite = np.isfinite(i0) & np.isfinite(i1)
    if not np.all(finite):
        labels.append("nan_events")
    if not np.any(finite):
        return skip("all_events_nan", labels)
    massless = any(m == 0.0 for m in masses.values())
    tol = 1e-6 if (desc["alignment"].startswith("dpd") and massless) else 1e-8
    scale = np.maximum(np.abs(i0), np.max(np.abs(i0[finite])) * 1e-6 + 1e-300)
    rel = np.abs(i1 - i0) / scale
    # rotation angle about an axis other than z
    rot_xy = math.acos(max(-1.0, min(1.0, rot[2, 2])))
    spin_ge1 = any(s.particle.spin >= 1 for s in t0.states.values()) or not spinless_final
    nontrivial = rot_xy >= 0.1 and spin_ge1
    if np.any(rel[finite] > tol):
        return violation(
            "intensity_not_rotation_invariant", nontrivial, labels,
            max_rel_diff=float(np.max(rel[finite])), several_topologies=n_topo >= 2,
            node_stores_opposite_child_direction=pattern,
            known_pattern=bool(n_topo >= 2 and pattern),
            axisangle_several_topologies_half_integer_final=bool(
                n_topo >= 2 and desc["alignment"] == "axisangle" and any(sp_.denominator == 2 for sp_ in final_spins)
            ),
            dpd_several_topologies_spinful=bool(
                n_topo >= 2 and desc["alignment"].startswith("dpd")
                and (not spinless_final or next(iter(t0.initial_states.values())).particle.spin > 0)
            ),
            intensity=[complex(x) for x in i0[:3]], rotated=[complex(x) for x in i1[:3]],
        )
    if np.max(np.abs(i0[finite].imag)) > 1e-9 * np.max(np.abs(i0[finite])) + 1e-300:
        return violation("intensity_not_real", nontrivial, labels, intensity=[complex(x) for x in i0[:3]])
    return ok(nontrivial, labels, max_rel_diff=float(np.max(rel[finite])), intensity=[float(x.real) for x in i0[:2]])
