"""C01 — every symbol of a model is defined: parameter xor kinematic variable."""

from __future__ import annotations

import itertools

import sympy as sp
from hypothesis import strategies as st

from vp.gen.config import FormFactorContract, config_strategy, formulate, prepare
from vp.gen.reactions import reaction_strategy, summarize
from vp.harness import Result, ok, skip, under_test, violation

PROPERTY = "C01"
RULE = (
    "Hypothesis draws a synthetic reaction descriptor (isobar topology index + final-state relabelling for 1-3"
    " topologies, spin/parity/mass per edge, helicity subsets, parity-conserving flags, formalism) and a builder"
    " configuration (stable ids, scalar initial mass, helicity couplings, alignment none/axis-angle/DPD(1-3), naming"
    " flags, permuted topologies, 0-3 dynamics assignments from 8 public builders). Non-trivial: some outer helicity"
    " combination has no transition, or >=2 topologies, or a non-default configuration field. Distinct = descriptor hash."
)
ASSUMPTIONS = [
    "synthetic ReactionInfo objects follow qrules' helicity/parity rules (vp/gen/reactions.py); DPD only on 3-body"
    " reactions relabelled with relabel_edge_ids (its documented precondition)",
    "axis-angle cases are limited by construction to final-state spins <= 1 (two of them) for cost",
    "ValueError 'Angular momentum is not defined' of form-factor builders is the documented contract (skipped, counted)",
]
BUDGET = {
    "quick": {"examples": 512, "shards": 16, "cap_s": 120, "shrink_calls": 40, "shrink_s": 90, "case_timeout_s": 45},
    "thorough": {"examples": 10000, "shards": 16, "cap_s": 2400, "shrink_calls": 150, "shrink_s": 300, "case_timeout_s": 240},
}


def strategy(tier):
    if tier == "thorough":
        rs = reaction_strategy(n_final=(2, 3, 4, 5), spin2_max=6, spin_k_max=3, max_transitions=96)
    else:
        rs = reaction_strategy(n_final=(2, 3, 4), spin2_max=4, spin_k_max=2, max_transitions=40)
    return rs.flatmap(
        lambda r: st.fixed_dictionaries({"reaction": st.just(r), "config": config_strategy(r)})
    )


def fixed_cases(tier):
    def fin(s2, m=0.938, latex=0):
        return {"s2": s2, "P": 1, "m": m, "latex": latex}

    base_cfg = {
        "stable": None, "scalar_initial": False, "helicity_couplings": False, "alignment": "none",
        "parent_hel": False, "child_hel": None, "ls": True, "permutate": False, "dynamics": [],
    }
    res = {"k": 0, "P": 1, "eps": 0.1, "width": 0.1}
    # eta_c -> Lambda Lambdabar like: J=0 -> 1/2 1/2 (outer combinations without transition)
    witness_f1 = {
        "reaction": {
            "formalism": "helicity", "n": 2, "mu": 0.3, "final": [fin(1), fin(1)], "ident": [],
            "initial": {"k": 0, "P": -1, "eps": 0.1, "width": 0.0},
            "topos": [{"idx": 0, "perm": [0, 1], "res": [], "pc": [False]}],
            "hel_init": 0, "hel_final": [0, 0], "max_transitions": 40,
        },
        "config": base_cfg,
    }
    # identical final-state particles in different nodes (D+ -> K- pi+ pi+ like)
    witness_ident = {
        "reaction": {
            "formalism": "helicity", "n": 3, "mu": 0.3, "final": [fin(0, 0.494), fin(0, 0.135), fin(0, 0.135)],
            "ident": [1, 2], "initial": {"k": 0, "P": 1, "eps": 0.1, "width": 0.0},
            "topos": [{"idx": 0, "perm": [1, 0, 2], "res": [dict(res, k=1)], "pc": [False, False]}],
            "hel_init": 0, "hel_final": [0, 0, 0], "max_transitions": 40,
        },
        "config": base_cfg,
    }
    return [witness_f1, witness_ident]


def unfold(expr):
    from ampform.sympy import PoolSum  # noqa: PLC0415

    new = expr
    for node in sp.postorder_traversal(expr):
        if isinstance(node, PoolSum):
            new = new.xreplace({node: node.evaluate()})
    return new


def run_case(desc) -> Result:  # noqa: C901, PLR0911, PLR0912
    from ampform.sympy import PoolSum  # noqa: PLC0415

    rdesc, config = desc["reaction"], desc["config"]
    prepared = prepare(rdesc, config)
    if prepared is None:
        return skip("no_transitions")
    built = prepared.built
    info = summarize(built)
    labels = [
        f"n={rdesc['n']}", f"topologies={info['n_topologies']}", rdesc["formalism"], f"align={config['alignment']}",
    ]
    if config["dynamics"]:
        labels.append("dynamics")
    if config["permutate"]:
        labels.append("permutated")
    if config["stable"] is not None:
        labels.append("stable_ids")
    if rdesc.get("ident"):
        labels.append("identical_particles")
    try:
        model = formulate(prepared)
    except FormFactorContract:
        return skip("form_factor_needs_L", labels)

    # outer combinations without a transition?
    reaction = prepared.reaction
    t0 = reaction.transitions[0]
    outer = list(t0.initial_states) + sorted(t0.final_states)
    seen = {tuple(t.states[i].spin_projection for i in outer) for t in reaction.transitions}
    per_state = [sorted({t.states[i].spin_projection for t in reaction.transitions}) for i in outer]
    n_product = 1
    for p in per_state:
        n_product *= len(p)
    missing_combo = len(seen) < n_product
    if missing_combo:
        labels.append("outer_combination_without_transition")
    default_cfg = (
        config["stable"] is None and not config["scalar_initial"] and not config["helicity_couplings"]
        and config["alignment"] == "none" and not config["parent_hel"] and config["child_hel"] is None
        and config["ls"] and not config["permutate"] and not config["dynamics"]
    )
    nontrivial = missing_combo or info["n_topologies"] >= 2 or not default_cfg

    expression = under_test("expression", lambda: model.expression)
    params = set(model.parameter_defaults)
    kin = set(model.kinematic_variables)
    free = expression.free_symbols

    leftover = sorted(str(a) for a in expression.atoms(sp.Indexed))
    if leftover:
        return violation("undefined_amplitude_symbol", nontrivial, labels, symbols=leftover[:6], n=len(leftover))
    neither = sorted(str(s) for s in free if s not in params and s not in kin)
    if neither:
        return violation("symbol_neither_parameter_nor_variable", nontrivial, labels, symbols=neither[:8])
    both = sorted(str(s) for s in free if s in params and s in kin)
    if both:
        return violation("symbol_both_parameter_and_variable", nontrivial, labels, symbols=both[:8])

    # every amplitude symbol of the unfolded intensity has a definition
    intensity = under_test("intensity.evaluate", lambda: unfold(model.intensity.evaluate()))
    if intensity.has(PoolSum):
        return violation("poolsum_left_after_unfolding", nontrivial, labels)
    undefined = sorted(str(a) for a in intensity.atoms(sp.Indexed) if a not in model.amplitudes)
    if undefined:
        return violation("amplitude_without_definition", nontrivial, labels, symbols=undefined[:6])

    # kinematic variables depend on final-state four-momenta only (after inserting defaults)
    final_ids = {i + 0 for i in reaction.final_state}
    allowed = {f"p{i}" for i in final_ids}
    defaults = dict(model.parameter_defaults.items())
    for var, expr in model.kinematic_variables.items():
        rest = {str(s) for s in expr.xreplace(defaults).free_symbols} - allowed
        if rest:
            return violation(
                "kinematic_variable_depends_on_other_symbols", nontrivial, labels, variable=str(var), symbols=sorted(rest)[:8]
            )
    # the statement holds for every model formulate() returns: once more on the same builder with the options that
    # move symbols between the two dictionaries switched off again
    if config["stable"] is not None or config["scalar_initial"]:
        builder = prepared.builder
        builder.config.stable_final_state_ids = None
        builder.config.scalar_initial_state_mass = False
        model2 = under_test("formulate(again, options reset)", builder.formulate)
        free2 = under_test("expression", lambda: model2.expression).free_symbols
        params2, kin2 = set(model2.parameter_defaults), set(model2.kinematic_variables)
        labels.append("second_formulate_after_resetting_options")
        neither = sorted(str(s) for s in free2 if s not in params2 and s not in kin2)
        if neither:
            return violation("symbol_neither_parameter_nor_variable", nontrivial, labels, symbols=neither[:8], model="second")
        both = sorted(str(s) for s in free2 if s in params2 and s in kin2)
        if both:
            return violation("symbol_both_parameter_and_variable", nontrivial, labels, symbols=both[:8], model="second")
    return ok(
        nontrivial, labels,
        n_transitions=info["n_transitions"], n_parameters=len(params), n_variables=len(kin),
        unused_parameters=len([p for p in params if p not in free and not any(p in e.free_symbols for e in model.kinematic_variables.values())]),
        notes=prepared.notes,
    )
