"""C12 — lineshape normalisations hold; builder API = function API.

Three kinds of cases (``mode``):

``bw``       normalised Blatt-Weisskopf factor ``BlattWeisskopfSquared(z, L).doit()``, L = 0..10:
             B_L^2(1) = 1;  B_L^2(z)/B_L^2(z/2) -> 2^L and B_L^2(z)/z^L -> const for z -> 0;
             0 <= B_L^2(z) <= lim_{z->oo} B_L^2, monotone in z > 0, and approaching that limit;
             integer-L polynomial fast path == symbolic-L Hankel-sum expression (L substituted
             afterwards) == exact-rational Hankel-sum oracle of `vp.ref.dyn`.
``width``    ``EnergyDependentWidth(s, m0, G0, ma, mb, L, d, phsp).doit()`` at s = m0^2 equals G0
             for every phase-space factor and L (numerically; with a symbolic L at sympy level).
``builder``  ``RelativisticBreitWignerBuilder(form_factor, energy_dependent_width, phsp_factor)``
             and the module-level convenience builders, applied to a generated qrules ``Particle``
             and ``TwoBodyKinematicVariableSet``: the expression (after ``doit()``, lambdified,
             parameters taken from the returned ``parameter_defaults``) equals the public function
             API (``relativistic_breit_wigner``, ``relativistic_breit_wigner_with_ff``,
             ``FormFactor``) evaluated with the particle's mass and width, the masses, L and the
             radius; both are also compared with the numpy-free reference Breit-Wigner of
             `vp.ref.dyn` (R3).

All numeric evaluation goes through ``doit()`` + ``lambdify(..., "numpy")`` with the energy
variable as complex128 and the resonance parameters (mass, width, radius) as Python complex
numbers (imaginary part +0), the decay-product masses as Python floats.  (A *real* negative
radicand makes numpy's sqrt return NaN, e.g. rho(m0^2) of a sub-threshold resonance; that is a
property of the evaluation route, not of the expression.)
"""

from __future__ import annotations

import math
from functools import lru_cache

import numpy as np
from hypothesis import strategies as st

from vp.harness import Result, ok, skip, under_test, violation
from vp.ref import dyn

PROPERTY = "C12"
RULE = (
    "Hypothesis draws the mode and (bw) L in 0..10 with z = +-10^[-8,8], a small z in 10^[-8,-5] and a large one "
    "in 10^[2,8]; (width) phase-space factor x L x masses in 10^[-2,1] (equal, free, ratio up to 1e3) x m0^2 placed "
    "relative to threshold/pseudo-threshold (above, below, offsets 10^[-8,2]) x width x radius; (builder) builder "
    "kind (class with the four flag combinations | three convenience builders | create_non_dynamic_with_ff) x "
    "phase-space factor x L x particle (name/latex variant, mass placed like m0, width) x radius (default or drawn) "
    "x 1-6 energies placed relative to 0, pseudo-threshold, threshold, the pole m0^2 or asymptotic. "
    "Non-trivial: bw: L>=1; width: L>=1 or a non-default phase-space factor; builder: form factor or "
    "energy-dependent width present, and (L>=1 or energy-dependent width with a non-default phase-space factor), "
    "and at least one energy was judged with a finite tolerance. Distinct = distinct descriptor hash."
)
ASSUMPTIONS = [
    "reference: Blatt-Weisskopf polynomials generated in exact rationals from the spherical Hankel sum "
    "(von Hippel-Quigg A12), q^2 in exact rational arithmetic, Breit-Wigner/width/rho variants re-derived from the "
    "formulas cited in the docstrings; principal branches for sqrt/log of negative reals",
    "tolerance = 2 x (spread of the reference when q^2(s) and q^2(m0^2) move within their double-precision error "
    "bound) + propagated bound for the log terms of the S-wave/equal-mass factors + 1e-12*|ref|*(pole and "
    "polynomial condition numbers); calibrated on the unchanged tree (worst error/tolerance < 0.5)",
    "energies are real and positive (s = m^2 with m the incoming_state_mass symbol); the Hankel expression is "
    "compared for z > 0 only (it is defined for a real Hankel argument sqrt(z))",
    "where the textbook S-wave Chew-Mandelstam form has lost all digits (s >~ 1e7 m1 m2) the point is labelled "
    "undetermined and not judged",
]
BUDGET = {
    "quick": {"examples": 8000, "shards": 16, "cap_s": 100, "shrink_calls": 120, "shrink_s": 40},
    "thorough": {"examples": 400000, "shards": 16, "cap_s": 1500, "shrink_calls": 600, "shrink_s": 240},
}

PHSP = ["default", *dyn.PHSP_KINDS]
BUILDERS = [
    "class", "class", "class", "class",
    "create_relativistic_breit_wigner",
    "create_relativistic_breit_wigner_with_ff",
    "create_analytic_breit_wigner",
    "create_non_dynamic_with_ff",
]
NAMES = [["R", None], ["f_0(980)", "f_{0}(980)"], ["K*(892)0", None]]
L_MAX = 10


# ----------------------------------------------------------------------- strategies
def _mexp(lo: int, hi: int):
    """Exponent x in [lo, hi), resolution 0.001; decades uniform (see c11 for the reason)."""
    return st.tuples(st.sampled_from(list(range(hi - 1, lo - 1, -1))), st.sampled_from(range(1000))).map(
        lambda t: round(t[0] + t[1] / 1000.0, 3)
    )


def _masses():
    equal = st.fixed_dictionaries({"kind": st.just("equal"), "lma": _mexp(-2, 1)})
    free = st.fixed_dictionaries({"kind": st.just("free"), "lma": _mexp(-2, 1), "lmb": _mexp(-2, 1)})
    extreme = st.fixed_dictionaries({"kind": st.just("free"), "lma": _mexp(0, 1), "lmb": _mexp(-2, -1)})
    return st.sampled_from(range(6)).flatmap(lambda k: [free, free, free, equal, equal, extreme][k])


def _resonance():
    """m0^2 relative to the landmarks of (ma, mb); width relative to m0."""
    def build(at):
        if at == "above":
            return st.fixed_dictionaries({"at": st.just(at), "loff": _mexp(-8, 2)})
        return st.fixed_dictionaries({"at": st.just(at), "loff": _mexp(-8, 0)})

    place = st.sampled_from(["above"] * 6 + ["below"] * 2 + ["pth+", "pth-"]).flatmap(build)
    return st.fixed_dictionaries({"m0": place, "lgam": _mexp(-3, 0)})


def _energy():
    def build(at):
        if at == "asym":
            return st.fixed_dictionaries({"at": st.just(at), "loff": _mexp(1, 4)})
        if at == "zero":
            return st.fixed_dictionaries({"at": st.just(at), "loff": _mexp(-8, 0)})
        return st.fixed_dictionaries({"at": st.just(at), "side": st.sampled_from([1, -1]), "loff": _mexp(-8, 0)})

    return st.sampled_from(["thr"] * 4 + ["pole"] * 3 + ["pth"] * 2 + ["zero", "asym", "asym"]).flatmap(build)


def _radius():
    return st.one_of(st.just("default"), _mexp(-2, 1))


def strategy(tier):
    ell = st.sampled_from(range(L_MAX + 1))
    ell_or_none = st.sampled_from([*range(L_MAX + 1), *range(L_MAX + 1), None])
    bw = st.fixed_dictionaries({
        "mode": st.just("bw"), "L": ell, "lz": _mexp(-8, 8), "negative": st.sampled_from([False, False, True]),
        "lz_small": _mexp(-8, -5), "lz_big": _mexp(2, 8),
    })
    width = st.fixed_dictionaries({
        "mode": st.just("width"), "phsp": st.sampled_from(PHSP), "L": ell, "masses": _masses(),
        "resonance": _resonance(), "radius": _radius(),
    })

    def builder_case(kind):
        flags = (
            {"ff": st.booleans(), "edw": st.booleans(), "configure": st.sampled_from(["ctor", "ctor", "attrs", "reconfigure"])}
            if kind == "class" else {}
        )
        phsp = st.sampled_from(PHSP) if kind == "class" else st.just("default")
        return st.fixed_dictionaries({
            "mode": st.just("builder"), "builder": st.just(kind), **flags, "phsp": phsp,
            "L": ell_or_none if kind in {"class", "create_relativistic_breit_wigner"} else ell,
            "name": st.sampled_from(range(len(NAMES))), "masses": _masses(), "resonance": _resonance(),
            "radius": _radius(), "energies": st.lists(_energy(), min_size=1, max_size=6),
        })

    builder = st.sampled_from(BUILDERS).flatmap(builder_case)
    return st.sampled_from(range(8)).flatmap(lambda k: [builder, builder, builder, builder, width, width, bw, bw][k])


def fixed_cases(tier):
    masses = {"kind": "free", "lma": -0.5, "lmb": -0.9}
    res = {"m0": {"at": "above", "loff": 0.0}, "lgam": -1.0}
    pts = [{"at": "pole", "side": -1, "loff": -1.0}, {"at": "thr", "side": -1, "loff": -1.0}, {"at": "asym", "loff": 1.0}]
    out = []
    for ell in (0, 1, 2, 10):
        out.append({"mode": "bw", "L": ell, "lz": 0.3, "negative": False, "lz_small": -6.0, "lz_big": 4.0})
    for phsp in PHSP:
        out.append({"mode": "width", "phsp": phsp, "L": 2, "masses": masses, "resonance": res, "radius": 0.4})
        out.append({
            "mode": "builder", "builder": "class", "ff": True, "edw": True, "phsp": phsp, "L": 1, "name": 1,
            "masses": masses, "resonance": res, "radius": 0.4, "energies": pts,
        })
    for ff, edw in ((False, False), (True, False), (False, True)):
        out.append({
            "mode": "builder", "builder": "class", "ff": ff, "edw": edw, "phsp": "default", "L": 3, "name": 0,
            "masses": masses, "resonance": res, "radius": "default", "energies": pts,
        })
    for kind in BUILDERS[4:]:
        out.append({
            "mode": "builder", "builder": kind, "phsp": "default", "L": 2, "name": 2, "masses": masses,
            "resonance": res, "radius": "default", "energies": pts,
        })
    return out


# ----------------------------------------------------------------------- descriptor -> numbers
def _mass_pair(md) -> tuple[float, float]:
    ma = 10.0 ** md["lma"]
    return (ma, ma) if md["kind"] == "equal" else (ma, 10.0 ** md["lmb"])


def _resonance_values(rd, ma: float, mb: float) -> tuple[float, float, str]:
    thr, pth = (ma + mb) ** 2, (ma - mb) ** 2
    at, off = rd["m0"]["at"], 10.0 ** rd["m0"]["loff"]
    if at.startswith("pth") and pth == 0.0:
        at = "above"
    if at == "above":
        m0sq = thr * (1.0 + off)
    elif at == "below":
        m0sq = thr * (1.0 - off)
    elif at == "pth+":
        m0sq = pth * (1.0 + off)
    else:
        m0sq = pth * (1.0 - off)
    m0 = math.sqrt(m0sq)
    return m0, m0 * 10.0 ** rd["lgam"], f"m0:{dyn.region(m0 * m0, ma, mb)}"


def _energy_value(ed, ma: float, mb: float, m0: float) -> tuple[float, str]:
    thr, pth = (ma + mb) ** 2, (ma - mb) ** 2
    at, off = ed["at"], 10.0 ** ed["loff"]
    if at == "pth" and pth == 0.0:
        at = "zero"
    if at == "asym":
        return thr * off, "s:asym"
    if at == "zero":
        return thr * off, "s:zero+"
    base = {"thr": thr, "pth": pth, "pole": m0 * m0}[at]
    near = "near" if ed["loff"] < -3 else "far"
    return base * (1.0 + ed.get("side", 1) * off), f"s:{at}{'+' if ed.get('side', 1) > 0 else '-'}:{near}"


def _fin(x: complex) -> bool:
    return math.isfinite(x.real) and math.isfinite(x.imag)


# ----------------------------------------------------------------------- code under test (cached per process)
def _phsp_class(name: str):
    from ampform.dynamics import phasespace as ps  # noqa: PLC0415

    return None if name == "default" else getattr(ps, name)


def _symbols():
    import sympy as sp  # noqa: PLC0415

    return sp.symbols("s M0 G0 m_a m_b d")


@lru_cache(maxsize=None)
def _bw_integer(ell: int):
    import sympy as sp  # noqa: PLC0415
    from ampform.dynamics import BlattWeisskopfSquared  # noqa: PLC0415

    z = sp.Symbol("z")
    expr = under_test("BlattWeisskopfSquared(z,int).doit", lambda: BlattWeisskopfSquared(z, ell).doit())
    return under_test("lambdify(BlattWeisskopfSquared)", sp.lambdify, z, expr, "numpy")


@lru_cache(maxsize=1)
def _bw_symbolic():
    import sympy as sp  # noqa: PLC0415
    from ampform.dynamics import BlattWeisskopfSquared  # noqa: PLC0415

    z = sp.Symbol("z")
    ell = sp.Symbol("L", integer=True, nonnegative=True)
    return z, ell, under_test("BlattWeisskopfSquared(z,symbol).doit", lambda: BlattWeisskopfSquared(z, ell).doit())


@lru_cache(maxsize=None)
def _bw_hankel(ell: int):
    import sympy as sp  # noqa: PLC0415

    z, sym, expr = _bw_symbolic()
    unfolded = under_test("BlattWeisskopfSquared(z,symbol).subs(L).doit", lambda: expr.subs(sym, ell).doit())
    return under_test("lambdify(Hankel expression)", sp.lambdify, z, unfolded, "numpy")


@lru_cache(maxsize=None)
def _function_api(kind: str, ell, phsp: str):
    """Public function API, lambdified over (s, M0, G0, m_a, m_b, d)."""
    import sympy as sp  # noqa: PLC0415
    from ampform import dynamics as dy  # noqa: PLC0415

    s, m0, g0, ma, mb, d = _symbols()
    kw = {} if phsp == "default" else {"phsp_factor": _phsp_class(phsp)}
    if kind == "bw":
        expr = under_test("relativistic_breit_wigner", dy.relativistic_breit_wigner, s, m0, g0)
    elif kind == "bw_ff":
        expr = under_test(
            "relativistic_breit_wigner_with_ff", dy.relativistic_breit_wigner_with_ff, s, m0, g0, ma, mb, ell, d, **kw
        )
    elif kind == "ff":
        expr = under_test("FormFactor", dy.FormFactor, s, ma, mb, ell, d)
    elif kind == "width":
        expr = under_test("EnergyDependentWidth", dy.EnergyDependentWidth, s, m0, g0, ma, mb, ell, d, **kw)
    else:
        raise KeyError(kind)
    expr = under_test(f"{kind}.doit", expr.doit)
    return under_test(f"lambdify({kind})", sp.lambdify, (s, m0, g0, ma, mb, d), expr, "numpy")


@lru_cache(maxsize=None)
def _symbolic_width_norm(phsp: str):
    """sympy level: Gamma(m0^2) with a *symbolic* L. Returns (ok, text)."""
    import sympy as sp  # noqa: PLC0415
    from ampform import dynamics as dy  # noqa: PLC0415

    _, m0, g0, ma, mb, d = _symbols()
    ell = sp.Symbol("L", integer=True, nonnegative=True)
    kw = {} if phsp == "default" else {"phsp_factor": _phsp_class(phsp)}
    expr = under_test(
        "EnergyDependentWidth(symbolic L).doit",
        lambda: dy.EnergyDependentWidth(m0**2, m0, g0, ma, mb, ell, d, **kw).doit(),
    )
    if expr == g0:
        return True, "structural"
    # fall back to numbers: substitute L and a generic point above threshold
    point = {m0: sp.Float(1.7), g0: sp.Float(0.3), ma: sp.Float(0.4), mb: sp.Float(0.6), d: sp.Float(1.3)}
    for n in (0, 1, 3):
        val = under_test("EnergyDependentWidth(symbolic L).subs.doit", lambda n=n: expr.subs(ell, n).doit().xreplace(point))
        val = complex(sp.N(val))
        if abs(val - 0.3) > 1e-10:
            return False, f"L={n}: {val}"
    return True, "numeric"


_BUILDER_CACHE: dict = {}


def _lambdified_builder_expr(key, expr):
    """doit()+lambdify of a builder expression, cached per configuration; the cache entry is
    only reused if the freshly built expression is structurally the same."""
    import sympy as sp  # noqa: PLC0415

    hit = _BUILDER_CACHE.get(key)
    if hit is not None and hit[0] == expr:
        return hit[1], hit[2]
    unfolded = under_test("builder expression.doit", expr.doit)
    syms = sorted(unfolded.free_symbols, key=lambda x: x.name)
    fn = under_test("lambdify(builder expression)", sp.lambdify, syms, unfolded, "numpy")
    _BUILDER_CACHE[key] = (expr, syms, fn)
    return syms, fn


def _call(label, fn, *args, shape=None):
    with np.errstate(all="ignore"):
        out = under_test(label, fn, *args)
    out = np.asarray(out, dtype=np.complex128)
    return np.broadcast_to(out, shape) if shape is not None else out


# ----------------------------------------------------------------------- mode: bw
def _case_bw(desc) -> Result:
    ell = desc["L"]
    labels = ["mode:bw", f"L={ell}"]
    nontrivial = ell >= 1
    fn = _bw_integer(ell)
    coeffs = [float(c) for c in dyn.bw_coeffs(ell)]
    limit = dyn.bw_limit(ell)

    def poly(zs):
        return _call("BlattWeisskopfSquared()", fn, np.asarray(zs, dtype=np.float64), shape=(len(zs),)).copy()

    # 1. normalisation
    one = complex(poly([1.0])[0])
    if not _fin(one) or abs(one - 1.0) > 1e-12:
        return violation("bw_not_one_at_z=1", nontrivial, labels, L=ell, got=one)

    # 2. polynomial fast path vs exact-rational oracle (z>0, and z<0 with the polynomial's condition number)
    z = 10.0 ** desc["lz"] * (-1.0 if desc["negative"] else 1.0)
    labels.append("z<0" if z < 0 else "z>0")
    want = dyn.bw2(z, ell)
    got = complex(poly([z])[0])
    cond = dyn.bw2_condition(z, ell)
    if math.isfinite(want) and cond < 1e12:
        tol = 1e-12 * cond * max(abs(want), 1e-300) * (1 + ell)
        if cond > 1e4:
            labels.append("ill_conditioned:bw_polynomial")
        if not _fin(got) or abs(got - want) > tol:
            return violation("bw_polynomial_ne_rational_oracle", nontrivial, labels, L=ell, z=z, got=got, want=want, tol=tol)
    else:
        labels.append("bw_pole")

    if z > 0:
        # 3. fast path vs the Hankel-sum expression obtained with a symbolic L
        hk = complex(_call("Hankel expression()", _bw_hankel(ell), np.asarray([z], dtype=np.float64), shape=(1,))[0])
        hcond = dyn.hankel_condition(z, ell)
        tol = 1e-12 * max(1.0, hcond) * abs(want)
        if hcond > 1e4:
            labels.append("ill_conditioned:hankel_sum")
        if not _fin(hk) or abs(hk - got) > tol:
            return violation("bw_polynomial_ne_hankel_expression", nontrivial, labels, L=ell, z=z, polynomial=got, hankel=hk, tol=tol)
        labels.append("hankel_compared")

        # 4. bounded by its limit, monotone
        seq = poly([z, 10.0 * z, 100.0 * z])
        vals = [complex(v) for v in seq]
        if any((not _fin(v)) or v.imag != 0 for v in vals):
            return violation("bw_not_real_finite", nontrivial, labels, L=ell, z=z, values=vals)
        re = [v.real for v in vals]
        if min(re) < 0 or max(re) > limit * (1 + 1e-12):
            return violation("bw_unbounded", nontrivial, labels, L=ell, z=z, values=re, limit=limit)
        if ell >= 1 and not (re[0] <= re[1] * (1 + 1e-12) and re[1] <= re[2] * (1 + 1e-12)):
            return violation("bw_not_monotone", nontrivial, labels, L=ell, z=z, values=re)

    # 5. threshold behaviour  B ~ (sum a / a_L) z^L
    zs = 10.0 ** desc["lz_small"]
    small = poly([zs, zs / 2.0])
    a, b = complex(small[0]), complex(small[1])
    slope = coeffs[-2] / coeffs[-1] if ell >= 1 else 0.0  # next-to-leading coefficient of the denominator
    rtol = 4.0 * zs * max(1.0, slope) + 1e-12
    if not (_fin(a) and _fin(b)) or b == 0 or abs(a / b - 2.0**ell) > rtol * 2.0**ell:
        return violation("bw_not_z^L_at_threshold", nontrivial, labels, L=ell, z=zs, ratio=a / b if b != 0 else "div0", want=2.0**ell, rtol=rtol)
    const = limit / coeffs[-1]
    if abs(a / zs**ell - const) > rtol * const:
        return violation("bw_threshold_constant", nontrivial, labels, L=ell, z=zs, got=a / zs**ell, want=const, rtol=rtol)

    # 6. approach to the limit: B(z) = limit / (1 + sum_{j>=1} a_j z^-j) at large z
    zb = 10.0 ** desc["lz_big"]
    big = complex(poly([zb])[0])
    want_big = dyn.bw2(zb, ell)
    if not _fin(big) or big.real > limit * (1 + 1e-12) or abs(big - want_big) > 1e-12 * (1 + ell) * want_big:
        return violation("bw_limit_not_approached", nontrivial, labels, L=ell, z=zb, got=big, want=want_big, limit=limit)
    tail = sum(c / zb**j for j, c in enumerate(coeffs) if j >= 1)
    if limit - big.real > limit * tail * (1 + 1e-9) + 1e-12 * limit:
        return violation("bw_limit_not_approached", nontrivial, labels, L=ell, z=zb, got=big, want=want_big, limit=limit)
    return ok(nontrivial, labels, L=ell, z=z, value=got)


# ----------------------------------------------------------------------- mode: width
def _case_width(desc) -> Result:
    ell, phsp = desc["L"], desc["phsp"]
    kind = "PhaseSpaceFactor" if phsp == "default" else phsp
    ma, mb = _mass_pair(desc["masses"])
    m0, g0, m0_label = _resonance_values(desc["resonance"], ma, mb)
    d = 1.0 if desc["radius"] == "default" else 10.0 ** desc["radius"]
    labels = ["mode:width", f"phsp:{phsp}", f"L={ell}", m0_label, f"masses:{desc['masses']['kind']}"]
    nontrivial = ell >= 1 or phsp not in {"default", "PhaseSpaceFactor"}

    s = m0**2
    q2, _ = dyn.q2_exact(s, ma, mb)
    # s (complex arithmetic) and m0**2 (float arithmetic) are the same number: q^2 differs by rounding only
    err = 8 * dyn.EPS * abs(q2)
    rho = dyn.rho_ref(kind, s, ma, mb, q2)
    rtol_rho = dyn.rho_tol(kind, s, ma, mb, q2, err)
    zq = q2 * d * d
    cond = dyn.bw2_condition(zq, ell)
    f2 = dyn.bw2(zq, ell)
    if not math.isfinite(rtol_rho) or not _fin(rho) or rho == 0 or not math.isfinite(f2) or f2 == 0 or cond > 1e10:
        labels.append("undetermined")
        return ok(False, labels, reason="rho or form factor not determined in double precision", m0=m0)
    rtol = 1e-12 + 2.0 * rtol_rho / abs(rho) + 64 * dyn.EPS * (1 + ell) * cond
    if rtol > 1e-9:
        labels.append("ill_conditioned")
    fn = _function_api("width", ell, phsp)
    # the resonance mass goes in as a complex number too: m0 below threshold makes rho(m0^2) and F(m0^2) square
    # roots of negative numbers, which numpy evaluates to NaN for real input (evaluation route, not expression)
    got = complex(_call(
        "EnergyDependentWidth()", fn, np.array([complex(m0) ** 2], dtype=np.complex128), complex(m0), complex(g0), ma, mb,
        complex(d), shape=(1,),
    )[0])
    if not _fin(got) or abs(got - g0) > rtol * g0:
        return violation(
            "width_at_pole_ne_nominal_width", nontrivial, labels,
            phsp=phsp, L=ell, got=got, want=g0, rtol=rtol, m0=m0, ma=ma, mb=mb, d=d,
        )
    # the same identity with a symbolic L, at sympy level (once per phase-space factor and process)
    good, how = _symbolic_width_norm(phsp)
    labels.append(f"symbolic_L:{how}")
    if not good:
        return violation("width_norm_symbolic_L", nontrivial, labels, phsp=phsp, detail=how)
    return ok(nontrivial, labels, m0=m0, g0=g0, ma=ma, mb=mb, d=d, err_over_tol=round(abs(got - g0) / (rtol * g0), 4))


# ----------------------------------------------------------------------- mode: builder
def _builder_flags(desc) -> tuple[bool, bool, str]:
    kind = desc["builder"]
    if kind == "class":
        return desc["ff"], desc["edw"], desc["phsp"]
    if kind == "create_relativistic_breit_wigner":
        return False, False, "default"
    if kind == "create_relativistic_breit_wigner_with_ff":
        return True, True, "PhaseSpaceFactor"
    if kind == "create_analytic_breit_wigner":
        return True, True, "EqualMassPhaseSpaceFactor"
    return True, False, "default"  # create_non_dynamic_with_ff: form factor only


def _reference_and_tol(s, m0, g0, ma, mb, ell, d, kind, ff, edw, only_ff):  # noqa: PLR0913, PLR0917
    """(reference value, tolerance, note). tolerance None = not judged."""
    def value(**kw):
        out = dyn.breit_wigner_ref(s, m0, g0, ma, mb, ell, d, kind, ff, edw, **kw)
        return (out["ff"] if only_ff else out["value"]), out

    ref, parts = value()
    if not _fin(ref):
        return ref, None, "reference_degenerate"
    den = parts["den"]
    width = parts["width"]
    pole = 1.0 if only_ff else (m0 * m0 + s + abs(width) * m0) / abs(den)
    tol = 1e-12 * abs(ref) * (1.0 + pole)
    if ff or edw:
        q2s, err_s = dyn.q2_exact(s, ma, mb)
        q20, err_0 = dyn.q2_exact(m0 * m0, ma, mb)
        cond = dyn.bw2_condition(q2s * d * d, ell) + (dyn.bw2_condition(q20 * d * d, ell) if edw else 0.0)
        if not cond < 1e10:
            return ref, None, "undetermined:form_factor_pole"
        spread = 0.0
        for sig_s in (1.0, -1.0):
            for sig_0 in (1.0, -1.0) if edw else (0.0,):
                pert, _ = value(dq2_s=sig_s * err_s, dq2_0=sig_0 * err_0)
                if not _fin(pert):
                    return ref, None, "undetermined:reference_unstable"
                spread = max(spread, abs(pert - ref))
        tol += 2.0 * spread + 64 * dyn.EPS * (1 + ell) * cond * abs(ref) * (1.0 + pole)
        if edw:
            rel = 0.0
            for x, q2x, ex in ((s, q2s, err_s), (m0 * m0, q20, err_0)):
                rho = dyn.rho_ref(kind, x, ma, mb, q2x)
                rt = dyn.rho_tol(kind, x, ma, mb, q2x, ex)
                if not math.isfinite(rt) or not _fin(rho) or rho == 0:
                    return ref, None, "undetermined:rho"
                rel += rt / abs(rho)
            if rel >= 0.5:
                return ref, None, "undetermined:rho"
            tol += 2.0 * abs(ref) * m0 * abs(width) / abs(den) * rel
    return ref, tol, ""


def _case_builder(desc) -> Result:  # noqa: C901, PLR0911, PLR0912, PLR0914, PLR0915
    import sympy as sp  # noqa: PLC0415
    from ampform.dynamics import builder as bld  # noqa: PLC0415
    from qrules.particle import Particle  # noqa: PLC0415

    bkind = desc["builder"]
    ff, edw, phsp = _builder_flags(desc)
    only_ff = bkind == "create_non_dynamic_with_ff"
    ell = desc["L"]
    kind = "PhaseSpaceFactor" if phsp == "default" else phsp
    ma, mb = _mass_pair(desc["masses"])
    m0, g0, m0_label = _resonance_values(desc["resonance"], ma, mb)
    d = 1.0 if desc["radius"] == "default" else 10.0 ** desc["radius"]
    labels = [
        "mode:builder", f"builder:{bkind}", f"flags:ff={int(ff)},edw={int(edw)}", f"phsp:{phsp}", f"L={ell}",
        m0_label, f"masses:{desc['masses']['kind']}", "radius:default" if desc["radius"] == "default" else "radius:drawn",
    ]
    structural = (ff or edw) and ell is not None and (ell >= 1 or (edw and phsp not in {"default", "PhaseSpaceFactor"}))

    name, latex = NAMES[desc["name"]]
    particle = Particle(name=name, latex=latex, pid=9000 + desc["name"], spin=float(ell or 0), mass=m0, width=g0)
    m_sym, m1_sym, m2_sym, th, ph = sp.symbols("m m_1 m_2 theta phi")
    pool = bld.TwoBodyKinematicVariableSet(
        incoming_state_mass=m_sym, outgoing_state_mass1=m1_sym, outgoing_state_mass2=m2_sym,
        helicity_theta=th, helicity_phi=ph, angular_momentum=ell,
    )
    if bkind == "class":
        how = desc.get("configure", "ctor")
        if how == "ctor":
            callee = under_test(
                "RelativisticBreitWignerBuilder()", bld.RelativisticBreitWignerBuilder,
                form_factor=ff, energy_dependent_width=edw, phsp_factor=_phsp_class(phsp),
            )
        else:
            # the public attributes of an existing builder are (re)assigned, the way the library's own
            # tests flip the two flags; "reconfigure": the builder was built with the opposite settings
            # and has been called once before
            labels.append(f"builder_configured_by:{how}")
            if how == "attrs":
                callee = under_test("RelativisticBreitWignerBuilder()", bld.RelativisticBreitWignerBuilder)
            else:
                other = [c for c in PHSP if c != phsp][len(phsp) % (len(PHSP) - 1)]
                callee = under_test(
                    "RelativisticBreitWignerBuilder()", bld.RelativisticBreitWignerBuilder,
                    form_factor=not ff, energy_dependent_width=not edw, phsp_factor=_phsp_class(other),
                )
                try:
                    callee(particle, pool)
                except ValueError:
                    pass
            callee.form_factor = ff
            callee.energy_dependent_width = edw
            from ampform.dynamics.phasespace import PhaseSpaceFactor as _default_phsp  # noqa: PLC0415

            callee.phsp_factor = _phsp_class(phsp) or _default_phsp
    else:
        callee = getattr(bld, bkind)
    try:
        expr, defaults = under_test(f"{bkind}(resonance, variable_pool)", callee, particle, pool, allowed=(ValueError,))
    except ValueError as exc:
        if ell is None and (ff or edw) and "Angular momentum is not defined" in str(exc):
            return skip("angular_momentum_none:documented_ValueError", labels)
        return violation("builder_raises_ValueError", structural, labels, message=str(exc)[:200], L=ell)
    if ell is None and (ff or edw):
        return violation("builder_accepts_missing_angular_momentum", False, labels, expr=str(expr)[:200])

    # parameter defaults: the particle's mass and width (+ radius 1), nothing else
    want_defaults = sorted([float(m0), float(g0)] + ([1.0] if ff or edw else []))
    if only_ff:
        want_defaults = [1.0]
    try:
        got_defaults = sorted(float(v) for v in defaults.values())
    except (TypeError, ValueError):
        got_defaults = None
    if got_defaults != want_defaults or not all(isinstance(k, sp.Symbol) for k in defaults):
        return violation(
            "parameter_defaults", structural, labels,
            got={str(k): str(v) for k, v in defaults.items()}, want=want_defaults,
        )

    # radius symbol = the default that the plain (no form factor, fixed width) builder does not have
    plain_defaults = under_test("plain builder", bld.RelativisticBreitWignerBuilder(), particle, pool)[1]
    extra = [k for k in defaults if k not in plain_defaults]
    values = {k: complex(v) for k, v in defaults.items()}  # complex: see _case_width
    if desc["radius"] != "default":
        if len(extra) == 1:
            values[extra[0]] = complex(d)
        elif ff or edw:
            return violation("radius_symbol_not_identifiable", structural, labels, defaults=[str(k) for k in defaults])

    key = (bkind, ff, edw, phsp, ell, desc["name"])
    syms, fn = _lambdified_builder_expr(key, expr)
    values.update({m1_sym: ma, m2_sym: mb})

    # energies
    svals, slabels = [], []
    for ed in desc["energies"]:
        s, lab = _energy_value(ed, ma, mb, m0)
        if s > 0 and math.isfinite(s):
            svals.append(math.sqrt(s))
            slabels.append(lab)
    if not svals:
        return skip("no_positive_energy", labels)
    m_arr = np.array(svals, dtype=np.complex128)
    s_arr = m_arr**2
    shape = m_arr.shape
    values[m_sym] = m_arr
    unknown = [str(x) for x in syms if x not in values]
    if unknown:
        return violation("unexpected_free_symbol", structural, labels, symbols=unknown, expr=str(expr)[:200])
    got_b = _call("builder expression()", fn, *[values[x] for x in syms], shape=shape)

    args = (s_arr, complex(m0), complex(g0), ma, mb, complex(d))
    if only_ff:
        got_f = _call("FormFactor()", _function_api("ff", ell, "default"), *args, shape=shape)
    elif not ff and not edw:
        got_f = _call("relativistic_breit_wigner()", _function_api("bw", None, "default"), *args, shape=shape)
    elif ff and edw:
        got_f = _call("relativistic_breit_wigner_with_ff()", _function_api("bw_ff", ell, phsp), *args, shape=shape)
    elif ff:
        got_f = _call("FormFactor()", _function_api("ff", ell, "default"), *args, shape=shape) * _call(
            "relativistic_breit_wigner()", _function_api("bw", None, "default"), *args, shape=shape
        )
    else:  # energy-dependent width without the form factor in the numerator
        with np.errstate(all="ignore"):
            got_f = _call("relativistic_breit_wigner_with_ff()", _function_api("bw_ff", ell, phsp), *args, shape=shape) / _call(
                "FormFactor()", _function_api("ff", ell, "default"), *args, shape=shape
            )

    judged = 0
    worst = 0.0
    for i, m_val in enumerate(svals):
        s = float(s_arr[i].real)
        labels.append(slabels[i])
        labels.append(f"s:{dyn.region(s, ma, mb)}")
        ref, tol, note = _reference_and_tol(s, m0, g0, ma, mb, ell, d, kind, ff, edw, only_ff)
        if tol is None:
            labels.append(note)
            continue
        b, f = complex(got_b[i]), complex(got_f[i])
        if tol > 1e-6 * abs(ref):
            labels.append("ill_conditioned")
        base = {"i": i, "s": s, "m": m_val, "m0": m0, "g0": g0, "ma": ma, "mb": mb, "L": ell, "d": d, "phsp": phsp,
                "ff": ff, "edw": edw, "builder": bkind, "tol": tol}
        f_ok = _fin(f)
        if not ff and edw and not f_ok:
            labels.append("function_quotient_undefined")  # FormFactor(s) = 0: the quotient form is 0/0
        elif not _fin(b) or not f_ok or abs(b - f) > 2.0 * tol:
            return violation("builder_ne_function", structural, labels, builder_value=b, function_value=f, reference=ref, **base)
        if not _fin(b) or abs(b - ref) > tol:
            return violation("builder_ne_reference", structural, labels, builder_value=b, reference=ref, **base)
        if f_ok and abs(f - ref) > tol:
            return violation("function_ne_reference", structural, labels, function_value=f, reference=ref, **base)
        worst = max(worst, abs(b - ref) / tol, abs(f - ref) / tol if f_ok else 0.0)
        judged += 1
    return ok(structural and judged > 0, labels, judged=judged, err_over_tol=round(worst, 4), m0=m0, g0=g0, ma=ma, mb=mb, d=d)


def run_case(desc) -> Result:
    mode = desc["mode"]
    if mode == "bw":
        res = _case_bw(desc)
    elif mode == "width":
        res = _case_width(desc)
    else:
        res = _case_builder(desc)
    res.labels = list(dict.fromkeys(res.labels))  # one count per case and label
    return res
