"""C11 — phase-space-factor variants agree where they must.

Observation point: ``X(s, m1, m2).doit()`` lambdified with numpy for
X in {BreakupMomentumSquared, PhaseSpaceFactor, ...Abs, ...Complex, ...SWave,
EqualMassPhaseSpaceFactor}, evaluated at ``s`` as a complex128 array (imaginary part +0)
and the masses as Python floats.  (A *real* negative radicand makes ``numpy.sqrt`` return
NaN; that is a property of the evaluation route, not of the expression.)

Clauses (exactly those of the statement):

A  s > (m1+m2)^2:           Re rho_X(s) = 2 q / sqrt(s) for all five X
B  (m1-m2)^2 < s < (m1+m2)^2:  rho_Complex = i * rho_Abs
C  m1 == m2, every real s != 0:  rho_EqualMass(s) = rho_SWave(s);
   both continuous at threshold (mode "continuity")
D  q^2(s,m1,m2) = q^2(s,m2,m1);  q^2 = 0 at s = (m1 +- m2)^2
   (and q^2 equals the exact-rational reference value everywhere)
E  (reference clause R3, switch SWAVE_REFERENCE_CLAUSE) m1 != m2: rho_SWave equals -i times the
   S-wave Chew-Mandelstam function re-derived in `vp.ref.dyn`.  The statement's relations are blind to
   the mass-asymmetry term of that function (purely imaginary, zero for equal masses), so a sign error
   there survives A-D; E closes that hole.  It does not count towards "non-trivial".

Oracle: `vp.ref.dyn` — q^2 in exact rational arithmetic on the floats actually passed, so
that the reference is the true value at the evaluated point, plus an a-priori bound of
the rounding error a double evaluation of the formula can make (the tolerance is that
bound propagated through sqrt/log, i.e. scaled by the conditioning; ill-conditioned
points are labelled, not dropped).
"""

from __future__ import annotations

import math
from functools import lru_cache

import numpy as np
from hypothesis import strategies as st

from vp.harness import Result, ok, skip, under_test, violation
from vp.ref import dyn

PROPERTY = "C11"
RULE = (
    "Hypothesis draws how the classes are constructed (positionally | by keyword in five orders) and a mass pair (equal | independent in 10^[-3,1]^2, ratio up to 1e4 | nearly equal) and s "
    "*relative to a landmark*: 0, (m1-m2)^2, (m1+m2)^2 with signed relative offsets 10^[-12,0], exactly on a "
    "landmark, or asymptotic +-10^[1,6]*(m1+m2)^2; or (mode continuity) an equal-mass pair probed at "
    "thr*(1+-eps), eps=1e-4..1e-10. Non-trivial: at least one relational clause was actually decided at the "
    "point with a finite tolerance (A: s>thr, five variants; B: pth<s<thr, Complex=i*Abs; C: equal masses, "
    "EqualMass=SWave; continuity sequence); points where only the q^2 clauses apply are counted as trivial. "
    "Distinct = distinct descriptor hash."
)
ASSUMPTIONS = [
    "numpy complex128 elementary functions (sqrt, log, arctan, abs) are accurate to a few ulp",
    "the reference q^2 is exact rational arithmetic on the binary floats; the rounding-error model (4 ulp per "
    "factor s-(m1+-m2)^2) bounds what a double evaluation of the library formula may lose; it was calibrated on "
    "the unchanged tree (worst observed error/tolerance < 0.5)",
    "s is passed with imaginary part +0; s = 0 exactly (a pole of q^2) is outside the domain",
    "where the textbook S-wave Chew-Mandelstam form loses all digits in double precision (s >~ 1e7*m1*m2: the "
    "log argument m1^2+m2^2-s+2 sqrt(s) q cancels completely) its value is not judged; such points are labelled "
    "swave_undetermined",
]
BUDGET = {
    "quick": {"examples": 48000, "shards": 16, "cap_s": 100, "shrink_calls": 300, "shrink_s": 40},
    "thorough": {"examples": 2000000, "shards": 16, "cap_s": 1500, "shrink_calls": 1500, "shrink_s": 240},
}

VARIANTS = dyn.PHSP_KINDS
CONT_EPS = [1e-4, 1e-5, 1e-6, 1e-7, 1e-8, 1e-9, 1e-10]
REL = dyn.REL
SWAVE_REFERENCE_CLAUSE = False  # clause E demands more than the statement says (kept for experiments only)


# ----------------------------------------------------------------------- strategies
# Exponents are drawn as (decade, thousandth of a decade): `sampled_from` over the decades is
# uniform (st.floats and st.integers put about a third of their mass on 0/"nice" values), the JSON round trip is
# exact, and a failing case shrinks towards the first decade.
def _mexp(lo: int, hi: int):
    """10^x exponents x in [lo, hi) with a resolution of 0.001."""
    return st.tuples(st.sampled_from(list(range(hi - 1, lo - 1, -1))), st.sampled_from(range(1000))).map(
        lambda t: round(t[0] + t[1] / 1000.0, 3)
    )


def _masses():
    equal = st.fixed_dictionaries({"kind": st.just("equal"), "lm1": _mexp(-3, 1)})
    free = st.fixed_dictionaries({"kind": st.just("free"), "lm1": _mexp(-3, 1), "lm2": _mexp(-3, 1)})
    extreme = st.fixed_dictionaries({"kind": st.just("free"), "lm1": _mexp(0, 1), "lm2": _mexp(-3, -2)})
    near = st.fixed_dictionaries({
        "kind": st.just("near"), "lm1": _mexp(-3, 1), "lrel": _mexp(-12, -1), "sign": st.sampled_from([1, -1]),
    })
    return st.sampled_from(range(10)).flatmap(
        lambda k: [free, free, free, free, equal, equal, equal, extreme, near, near][k]
    )


_AT = ["thr"] * 6 + ["pth"] * 3 + ["zero"] * 3 + ["asym"] * 4 + ["exact_thr", "exact_pth"]


def _point():
    def build(at):
        if at.startswith("exact"):
            return st.just({"at": at})
        if at == "asym":
            return st.fixed_dictionaries({"at": st.just(at), "side": st.sampled_from([1, 1, -1]), "loff": _mexp(1, 6)})
        return st.fixed_dictionaries({"at": st.just(at), "side": st.sampled_from([1, -1]), "loff": _mexp(-12, 0)})

    return st.sampled_from(_AT).flatmap(build)


def strategy(tier):
    construction = st.sampled_from(["positional", "positional", "positional", *CONSTRUCTIONS])
    point = st.fixed_dictionaries({
        "mode": st.just("point"), "masses": _masses(), "s": _point(), "construction": construction,
    })
    cont = st.fixed_dictionaries({"mode": st.just("continuity"), "lm1": _mexp(-3, 1), "construction": construction})
    return st.sampled_from(range(20)).flatmap(lambda k: cont if k >= 18 else point)


def fixed_cases(tier):
    eq = {"kind": "equal", "lm1": 0.0}
    un = {"kind": "free", "lm1": 0.0, "lm2": -1.0}
    return [
        # equal masses: one point per region (the s<0 one is the minimal witness of the
        # EqualMass != SWave finding: m1=m2=1, s=-4)
        {"mode": "point", "masses": eq, "s": {"at": "zero", "side": -1, "loff": 0.0}},
        {"mode": "point", "masses": eq, "s": {"at": "zero", "side": 1, "loff": -1.0}},
        {"mode": "point", "masses": eq, "s": {"at": "thr", "side": 1, "loff": 0.0}},
        {"mode": "point", "masses": eq, "s": {"at": "exact_thr"}},
        {"mode": "point", "masses": un, "s": {"at": "thr", "side": 1, "loff": -12.0}},
        {"mode": "point", "masses": un, "s": {"at": "thr", "side": -1, "loff": -6.0}},
        {"mode": "point", "masses": un, "s": {"at": "exact_pth"}},
        {"mode": "point", "masses": un, "s": {"at": "asym", "side": 1, "loff": 6.0}},
        {"mode": "point", "masses": un, "s": {"at": "asym", "side": -1, "loff": 3.0}},
        {"mode": "continuity", "lm1": 0.0},
        {"mode": "continuity", "lm1": -3.0},
        *[{"mode": "point", "masses": un, "s": {"at": "thr", "side": 1, "loff": 0.0}, "construction": c}
          for c in CONSTRUCTIONS],
    ]


# ----------------------------------------------------------------------- code under test
# how the expression classes are constructed: positionally or by keyword in some order (the SymPy args of an
# `@unevaluated` class must not depend on it)
CONSTRUCTIONS = {
    "positional": None,
    "kw_s_m1_m2": ("s", "m1", "m2"),
    "kw_m1_m2_s": ("m1", "m2", "s"),
    "kw_m2_s_m1": ("m2", "s", "m1"),
    "kw_m1_s_m2": ("m1", "s", "m2"),
    "pos_s_kw_m2_m1": ("m2", "m1"),
}
_CONSTRUCTION = "positional"


def _construct(cls, construction, s, m1, m2):
    order = CONSTRUCTIONS[construction]
    if order is None:
        return cls(s, m1, m2)
    values = {"s": s, "m1": m1, "m2": m2}
    if len(order) == 2:
        return cls(s, **{k: values[k] for k in order})
    return cls(**{k: values[k] for k in order})


@lru_cache(maxsize=8)
def _functions(construction="positional"):
    import sympy as sp  # noqa: PLC0415
    from ampform.dynamics import phasespace as ps  # noqa: PLC0415

    s, m1, m2 = sp.symbols("s m1 m2")
    out = {}
    for name in ("BreakupMomentumSquared", *VARIANTS):
        cls = getattr(ps, name)
        expr = under_test(f"{name}.doit", lambda c=cls: _construct(c, construction, s, m1, m2).doit())
        out[name] = under_test(f"{name}.lambdify", sp.lambdify, (s, m1, m2), expr, "numpy")
    return out


def _eval(name: str, s: float, m1: float, m2: float) -> complex:
    fn = _functions(_CONSTRUCTION)[name]
    arr = np.array([s], dtype=np.complex128)
    with np.errstate(all="ignore"):
        val = under_test(f"{name}()", fn, arr, m1, m2)
    return complex(np.asarray(val, dtype=np.complex128).reshape(-1)[0])


# ----------------------------------------------------------------------- descriptor -> numbers
def _mass_pair(md) -> tuple[float, float]:
    m1 = 10.0 ** md["lm1"]
    if md["kind"] == "equal":
        return m1, m1
    if md["kind"] == "free":
        return m1, 10.0 ** md["lm2"]
    m2 = m1 * (1.0 + md["sign"] * 10.0 ** md["lrel"])
    return m1, min(max(m2, 1e-3), 10.0)


def _s_value(sd, m1: float, m2: float) -> tuple[float, str]:
    thr = (m1 + m2) ** 2
    pth = (m1 - m2) ** 2
    at = sd["at"]
    if at == "exact_thr":
        return thr, "exact_thr"
    if at == "exact_pth":
        return pth, "exact_pth"
    off = 10.0 ** sd["loff"]
    if at == "asym":
        return sd["side"] * thr * off, f"asym{'+' if sd['side'] > 0 else '-'}"
    if at == "pth" and pth == 0.0:
        at = "zero"
    bucket = "1e-12..1e-9" if sd["loff"] < -9 else "1e-9..1e-6" if sd["loff"] < -6 else (
        "1e-6..1e-3" if sd["loff"] < -3 else "1e-3..1")
    side = "+" if sd["side"] > 0 else "-"
    if at == "zero":
        return sd["side"] * off * thr, f"zero{side}:{bucket}"
    base = thr if at == "thr" else pth
    return base * (1.0 + sd["side"] * off), f"{at}{side}:{bucket}"


def _fin(x: complex) -> bool:
    return math.isfinite(x.real) and math.isfinite(x.imag)


# ----------------------------------------------------------------------- the case
def run_case(desc) -> Result:
    global _CONSTRUCTION  # noqa: PLW0603
    _CONSTRUCTION = desc.get("construction", "positional")
    res = _run_case(desc)
    res.labels.append(f"construction={_CONSTRUCTION}")
    return res


def _run_case(desc) -> Result:
    if desc["mode"] == "continuity":
        return _continuity(desc)
    m1, m2 = _mass_pair(desc["masses"])
    if desc["s"]["at"] == "exact_pth" and m1 == m2:
        return skip("pseudo_threshold_is_the_pole_s=0")
    s, where = _s_value(desc["s"], m1, m2)
    if s == 0.0 or not math.isfinite(s):
        return skip("s_is_zero")
    reg = dyn.region(s, m1, m2)
    ratio = max(m1, m2) / min(m1, m2)
    labels = [reg, where, f"masses:{desc['masses']['kind']}"]
    if ratio >= 1e3:
        labels.append("mass_ratio>=1e3")
    q2, err = dyn.q2_exact(s, m1, m2)
    if err > 1e-6 * abs(q2):
        labels.append("ill_conditioned:q2")
    base = {"s": s, "m1": m1, "m2": m2, "region": reg}
    rs = math.sqrt(abs(s))

    # ---- D: q^2
    got_q2 = _eval("BreakupMomentumSquared", s, m1, m2)
    got_q2_swapped = _eval("BreakupMomentumSquared", s, m2, m1)
    if not _fin(got_q2) or abs(got_q2.real - q2) > err or abs(got_q2.imag) > err:
        return violation("q2_differs_from_reference", False, labels, got=got_q2, want=q2, tol=err, **base)
    if not _fin(got_q2_swapped) or abs(got_q2_swapped - got_q2) > 4 * dyn.EPS * abs(q2):
        return violation("q2_not_symmetric", False, labels, got=got_q2_swapped, want=got_q2, **base)
    if desc["s"]["at"] in {"exact_thr", "exact_pth"}:
        pth, thr = (m1 - m2) ** 2, (m1 + m2) ** 2
        natural = (abs(s) + thr) * (abs(s) + pth) / (4 * abs(s))
        if abs(got_q2) > 64 * dyn.EPS * natural:
            return violation("q2_nonzero_at_landmark", False, labels, got=got_q2, tol=64 * dyn.EPS * natural, **base)

    decided = 0
    worst = {"A": 0.0, "B": 0.0, "C": 0.0, "E": 0.0}  # largest error/tolerance per clause (calibration aid, kept in the evidence)

    # ---- A: above threshold, Re rho_X = 2 q / sqrt(s)
    if reg == "s>thr":
        want = 2.0 * math.sqrt(q2) / rs
        tol_q = 3.0 * 2.0 * dyn.sqrt_spread(q2, err) / rs + REL * want
        cond = dyn.swave_condition(s, m1, m2, q2)
        for name in VARIANTS:
            if name == "PhaseSpaceFactorSWave" and 16 * dyn.EPS * cond >= 0.5:
                labels.append("swave_undetermined")
                continue
            got = _eval(name, s, m1, m2)
            if not _fin(got) or abs(got.real - want) > tol_q:
                return violation(
                    "real_part_above_threshold", True, labels, variant=name, got=got, want=want, tol=tol_q, **base
                )
            worst["A"] = max(worst["A"], abs(got.real - want) / tol_q)
            decided += 1

    # ---- B: between pseudo-threshold and threshold, Complex = i Abs
    if reg == "pth<s<thr":
        rc = _eval("PhaseSpaceFactorComplex", s, m1, m2)
        ra = _eval("PhaseSpaceFactorAbs", s, m1, m2)
        tol = REL * abs(ra)
        if abs(q2) <= err:  # the sign of the double-precision q^2 is not determined
            tol += 2.0 * math.sqrt(2.0) * math.sqrt(2.0 * err) / rs
        if not (_fin(rc) and _fin(ra)) or abs(rc - 1j * ra) > tol:
            return violation("complex_ne_i_abs_below_threshold", True, labels, got=rc, want=1j * ra, tol=tol, **base)
        if abs(ra) == 0 and abs(q2) > err:
            return violation("complex_ne_i_abs_below_threshold", True, labels, got=rc, want="non-zero", **base)
        worst["B"] = abs(rc - 1j * ra) / tol if tol > 0 else 0.0
        decided += 1

    # ---- C: equal masses, EqualMass = SWave on the whole real axis
    if m1 == m2:
        ref = dyn.chew_mandelstam_rho(s, m1, m2, q2)
        tol_sw, dlog = dyn.swave_tol(s, m1, m2, q2, err)
        tol_eq = dyn.equal_mass_tol(s, m1, m2, q2, err)
        if dlog > 1e-6:
            labels.append("ill_conditioned:swave_log")
        if dlog >= 0.5:
            labels.append("swave_undetermined")
        else:
            eq = _eval("EqualMassPhaseSpaceFactor", s, m1, m2)
            sw = _eval("PhaseSpaceFactorSWave", s, m1, m2)
            tol = tol_eq + tol_sw
            if not (_fin(eq) and _fin(sw)) or abs(eq - sw) > tol:
                return violation(
                    "equal_mass_ne_swave", True, labels,
                    region=reg, s=s, m1=m1, m2=m2, equal_mass=eq, swave=sw, tol=tol, reference=ref,
                    equal_mass_off_reference=bool(not _fin(eq) or abs(eq - ref) > tol_eq),
                    swave_off_reference=bool(not _fin(sw) or abs(sw - ref) > tol_sw),
                )
            worst["C"] = abs(eq - sw) / tol
            decided += 1

    # ---- E (reference clause, R3): unequal masses, rho_SWave = -i * Chew-Mandelstam S-wave function.
    # The relations above never see the mass-asymmetry term (m1^2-m2^2)(1/s-1/thr) log(m1/m2) (it is imaginary
    # and vanishes for equal masses); it is compared with the cancellation-free re-derivation in vp.ref.dyn.
    if SWAVE_REFERENCE_CLAUSE and m1 != m2:
        ref = dyn.chew_mandelstam_rho(s, m1, m2, q2)
        tol_sw, dlog = dyn.swave_tol(s, m1, m2, q2, err)
        if dlog >= 0.5:
            if "swave_undetermined" not in labels:
                labels.append("swave_undetermined")
        else:
            if dlog > 1e-6:
                labels.append("ill_conditioned:swave_log")
            sw = _eval("PhaseSpaceFactorSWave", s, m1, m2)
            if not _fin(sw) or abs(sw - ref) > tol_sw:
                return violation(
                    "swave_ne_chew_mandelstam_reference", True, labels, got=sw, want=ref, tol=tol_sw, **base
                )
            worst["E"] = abs(sw - ref) / tol_sw

    return ok(
        decided > 0, labels,
        worst_err_over_tol=round(max(worst.values()), 4), err_over_tol={k: round(v, 4) for k, v in worst.items()},
        clauses=decided, **base,
    )


def _continuity(desc) -> Result:
    """Equal masses: f(thr(1+-eps)) -> f(thr) like sqrt(eps), for f = EqualMass and SWave."""
    m = 10.0 ** desc["lm1"]
    thr = (m + m) ** 2
    labels = ["continuity", "masses:equal"]
    worst = 0.0
    for name in ("EqualMassPhaseSpaceFactor", "PhaseSpaceFactorSWave"):
        at = _eval(name, thr, m, m)
        _, err0 = dyn.q2_exact(thr, m, m)
        floor = 4.0 * math.sqrt(2.0 * err0) / math.sqrt(thr)  # rounding of q^2 at threshold, through the sqrt
        if not _fin(at) or abs(at) > floor:
            return violation("discontinuous_at_threshold", True, labels, variant=name, at_threshold=at, tol=floor, m=m)
        for eps in CONT_EPS:
            for side in (1.0, -1.0):
                s = thr * (1.0 + side * eps)
                val = _eval(name, s, m, m)
                # |f| <= rho(1+rho) above and <= rho_hat below, rho ~ sqrt(eps/(1-+eps)): 1.5 sqrt(eps) is a safe
                # envelope for eps <= 1e-4; the variation of f over the rounding of s is far below it
                bound = 1.5 * math.sqrt(eps) + floor
                if not _fin(val) or abs(val - at) > bound:
                    return violation(
                        "discontinuous_at_threshold", True, labels,
                        variant=name, eps=eps, side=side, value=val, at_threshold=at, tol=bound, m=m,
                    )
                worst = max(worst, abs(val - at) / bound)
    return ok(True, labels, worst_err_over_tol=round(worst, 4), m=m)
