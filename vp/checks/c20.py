"""C20 — phase-space boundary functions classify three-body kinematics correctly.

Case kinds
* ``event``: a physical three-body event built in multi-precision from the descriptor
  (same generator as C19): ``compute_third_mandelstam`` must give the invariant mass
  squared of the third pair, ``Kibble`` of the three must be <= 0 and
  ``is_within_phasespace`` must be 1.
* ``grid``: (sigma1, sigma2) in the bounding box ``[(m2+m3)^2,(m0-m1)^2] x
  [(m1+m3)^2,(m0-m2)^2]``, uniform or at a drawn distance 10^[-10,-2] m0^2 on either side of
  a Dalitz-plot limit: the indicator is 1 iff sigma2 lies between the PDG limits
  ``(E1*+E3*)^2 - (p1* +- p3*)^2`` for that sigma1 and the caller's ``outside_value``
  (nan | 0 | -1 | a symbol) otherwise.
* ``boundary_exact``: an exactly collinear event with integer energies and momenta (massless
  particles, particles at rest, Pythagorean triples; the third particle balances the momentum):
  the point lies exactly on the Dalitz-plot boundary, the exact Kibble value is 0 and the event
  is physical, so the indicator must be 1 -- on sympy Integers through ``doit`` and, because all
  intermediate values are integers below 2^53, also in the lambdified double-precision function.
* ``kallen`` / ``kallen_exact`` / ``kallen_symbolic``: total symmetry and the factorised
  form, in doubles, in exact rationals and symbolically.

Oracle: ``vp.ref.dalitz`` (mpmath, 50 digits; never ampform).
"""

from __future__ import annotations

import functools
import itertools
import math
from fractions import Fraction

import numpy as np
import sympy as sp
from hypothesis import strategies as st

from vp.harness import Result, ok, under_test, violation
from vp.ref import dalitz as dz

PROPERTY = "C20"
RULE = (
    "Hypothesis draws the case kind (event | grid | boundary_exact | kallen | kallen_exact), masses from {0, "
    "PDG-like constants, floats}, energy release 10^[-3,1]; events as in C19 (pair-mass fraction, "
    "decay angle incl. 10^[-8,-1] from 0/pi); grid points by fractions of the bounding box incl. "
    "10^[-6,-1] from its edges and sigma2 either uniform or at 10^[-10,-2] m0^2 inside/outside a PDG "
    "limit; outside_value in {nan, 0, -1, symbol}; evaluation route lambdify | doit-on-floats. "
    "Non-trivial: event/grid point with pairwise distinct masses whose distance from the nearer "
    "limit is >= 1e-6 relative and whose Kibble value is above double resolution (inside and "
    "outside classes both labelled); boundary_exact: integer collinear events (Kibble exactly 0) whose three "
    "masses are not all equal; kallen cases with three distinct positive arguments. "
    "Distinct = distinct descriptor hash."
)
ASSUMPTIONS = [
    "sigma1 = m_23^2, sigma2 = m_13^2, sigma3 = m_12^2 (usage docs / DPD paper); Dalitz limits of sigma2 at "
    "fixed sigma1 from the PDG kinematics review, evaluated with 50 digits",
    "points within 1e-9 relative of a limit (on_boundary) are not asserted either way; neither are points where "
    "the exact Kibble value is below 1e-14*S (measured double rounding: 6e-17*S), S = (sum_i (m0^2+m_i^2+sigma_i)^2)^2, i.e. below what a "
    "double-precision evaluation of the degree-8 polynomial can resolve (label below_double_resolution: happens "
    "where the two limits merge at the sigma1 extremes and for sigma1 -> 0 with massless particles)",
    "sigma3 tolerance 1e-13*(m0^2+sum m_i^2+sigma1+sigma2); Kibble <= 1e-14*S for physical events",
    "grid points outside the bounding box (possible for near-limit points) are out of scope and skipped",
    "Kallen in doubles: |difference| <= 1e-14 (x+y+z)^2; exact for rationals and symbolically",
]
BUDGET = {
    "quick": {"examples": 60000, "shards": 16, "cap_s": 100, "shrink_calls": 300, "shrink_s": 40},
    "thorough": {"examples": 5000000, "shards": 16, "cap_s": 1500, "shrink_calls": 1000, "shrink_s": 240},
}

OUTSIDE_KINDS = ("nan", "zero", "minus_one", "symbol")
SYMBOL_VALUE = 7.5
RES = 1e-14
ON_BOUNDARY_REL = 1e-9


# ----------------------------------------------------------------------- strategies
_MASS = st.one_of(
    st.just(0.0),
    st.sampled_from([0.13957, 0.49368, 0.93827, 1.0]),
    st.sampled_from([0.13957, 0.49368, 0.93827, 1.0]),
    st.floats(1e-3, 3.0),
    st.floats(1e-3, 3.0),
    st.floats(1e-3, 3.0),
    st.floats(1e-3, 3.0),
)
_GENERIC_MASS = st.floats(0.01, 3.0)
_MASSES = st.one_of(
    st.tuples(_GENERIC_MASS, _GENERIC_MASS, _GENERIC_MASS).map(list),  # generic: pairwise distinct
    st.lists(_MASS, min_size=3, max_size=3),  # special values: massless, equal masses
)
_LOG = lambda lo, hi: st.floats(lo, hi).map(lambda e: 10.0**e)  # noqa: E731
_THETA = st.one_of(
    st.floats(-1.0, 1.0).map(math.acos),
    st.floats(-1.0, 1.0).map(math.acos),
    st.floats(-1.0, 1.0).map(math.acos),
    _LOG(-8.0, -1.0),
    _LOG(-8.0, -1.0).map(lambda d: math.pi - d),
)
_FRACTION = st.one_of(
    st.floats(0.001, 0.999),
    st.floats(0.001, 0.999),
    st.floats(0.001, 0.999),
    _LOG(-6.0, -1.0),
    _LOG(-6.0, -1.0).map(lambda d: 1.0 - d),
)
_ANGLE = st.floats(-math.pi, math.pi)
_ROUTE = st.sampled_from(["lambdify"] * 7 + ["doit"])
_OUTSIDE = st.sampled_from(OUTSIDE_KINDS)
_Q = _LOG(-3.0, 1.0)


def _event_strategy():
    return st.fixed_dictionaries({
        "kind": st.just("event"), "m": _MASSES, "q": _Q, "spect": st.sampled_from([1, 2, 3]),
        "x": _FRACTION, "theta": _THETA, "phi": _ANGLE,
        "euler": st.tuples(_ANGLE, st.floats(0.0, math.pi), _ANGLE).map(list),
        "outside": _OUTSIDE, "route": _ROUTE,
    })


def _grid_strategy():
    sigma2 = st.one_of(
        st.fixed_dictionaries({"mode": st.just("uniform"), "u": st.floats(0.0, 1.0)}),
        st.fixed_dictionaries({
            "mode": st.just("near"), "limit": st.sampled_from(["lo", "hi"]),
            "side": st.sampled_from([-1, 1]), "d": _LOG(-10.0, -2.0),
        }),
    )
    return st.fixed_dictionaries({
        "kind": st.just("grid"), "m": _MASSES, "q": _Q, "u1": _FRACTION, "s2": sigma2,
        "outside": _OUTSIDE, "route": _ROUTE,
    })


_KALLEN_ARG = st.one_of(st.just(0.0), st.floats(0.0, 1e3), _LOG(-6.0, 3.0), st.sampled_from([1.0, 0.25, 4.0]))
_RAT = st.tuples(st.integers(0, 60), st.integers(1, 12)).map(list)


_TRIPLES = (  # (mass, |momentum|, energy), integers
    (0, 1, 1), (0, 1, 1), (1, 0, 1), (3, 4, 5), (4, 3, 5), (5, 12, 13), (12, 5, 13), (8, 15, 17), (15, 8, 17),
)
_PART = st.tuples(st.integers(0, len(_TRIPLES) - 1), st.integers(1, 3), st.sampled_from([-1, 1])).map(list)


def _boundary_strategy():
    return st.fixed_dictionaries({
        "kind": st.just("boundary_exact"), "parts": st.tuples(_PART, _PART).map(list),
        "third": st.integers(0, 7), "rest_mass": st.integers(1, 6),
        "perm": st.permutations([0, 1, 2]).map(list), "outside": _OUTSIDE,
        "route": st.sampled_from(["lambdify", "doit"]),
    })


def strategy(tier):
    return st.one_of(
        _event_strategy(),
        _boundary_strategy(),
        _grid_strategy(),
        _grid_strategy(),
        _grid_strategy(),
        st.fixed_dictionaries({"kind": st.just("kallen"), "xyz": st.lists(_KALLEN_ARG, min_size=3, max_size=3)}),
        st.fixed_dictionaries({"kind": st.just("kallen_exact"), "x": _RAT, "a": _RAT, "b": _RAT}),
    )


def fixed_cases(tier):
    cases = [{"kind": "kallen_symbolic"}]
    # the three points of the test-suite (m0=2.1, m=(0.2,0.4,0.4)): (0,3)->outside, (1,1), (2,2)->inside
    for s1, s2 in ((0.0, 3.0), (1.0, 1.0), (2.0, 2.0)):
        for out in OUTSIDE_KINDS:
            cases.append({"kind": "raw", "m0": 2.1, "m": [0.2, 0.4, 0.4], "s1": s1, "s2": s2, "outside": out,
                          "route": "doit"})
            cases.append({"kind": "raw", "m0": 2.1, "m": [0.2, 0.4, 0.4], "s1": s1, "s2": s2, "outside": out,
                          "route": "lambdify"})
    return cases


# ----------------------------------------------------------------------- code under test
def _symbols():
    return sp.symbols("sigma1 sigma2 sigma3 m0 m1 m2 m3", nonnegative=True)


def _outside_sympy(kind):
    return {"nan": sp.nan, "zero": sp.Integer(0), "minus_one": sp.Integer(-1),
            "symbol": sp.Symbol("outside_value")}[kind]


@functools.lru_cache(maxsize=None)
def _indicator(kind: str):
    from ampform.kinematics.phasespace import is_within_phasespace  # noqa: PLC0415

    s1, s2, _, m0, m1, m2, m3 = _symbols()
    out = _outside_sympy(kind)
    expr = under_test("is_within_phasespace", is_within_phasespace, s1, s2, m0, m1, m2, m3, outside_value=out)
    expr = under_test("is_within_phasespace.doit", expr.doit)
    args = [s1, s2, m0, m1, m2, m3] + ([out] if kind == "symbol" else [])
    return under_test("lambdify", sp.lambdify, args, expr, "numpy")


@functools.lru_cache(maxsize=1)
def _kibble():
    from ampform.kinematics.phasespace import Kibble  # noqa: PLC0415

    syms = _symbols()
    expr = under_test("Kibble.doit", lambda: Kibble(*syms).doit())
    return under_test("lambdify", sp.lambdify, list(syms), expr, "numpy")


@functools.lru_cache(maxsize=1)
def _third():
    from ampform.kinematics.phasespace import compute_third_mandelstam  # noqa: PLC0415

    s1, s2, _, m0, m1, m2, m3 = _symbols()
    expr = under_test("compute_third_mandelstam", compute_third_mandelstam, s1, s2, m0, m1, m2, m3)
    return under_test("lambdify", sp.lambdify, [s1, s2, m0, m1, m2, m3], expr, "numpy")


@functools.lru_cache(maxsize=1)
def _kallen():
    from ampform.kinematics.phasespace import Kallen  # noqa: PLC0415

    x, y, z = sp.symbols("x y z", nonnegative=True)
    expr = under_test("Kallen.doit", lambda: Kallen(x, y, z).doit())
    return under_test("lambdify", sp.lambdify, [x, y, z], expr, "numpy")


def _indicator_value(route, outside, s1, s2, m0, m):
    """Value of the indicator as a float (nan allowed) or the string 'symbol'."""
    if route == "doit":
        from ampform.kinematics.phasespace import is_within_phasespace  # noqa: PLC0415

        out = _outside_sympy(outside)
        expr = under_test("is_within_phasespace(floats)", is_within_phasespace, s1, s2, m0, *m, outside_value=out)
        val = under_test("is_within_phasespace(floats).doit", expr.doit)
        if val == out and outside == "symbol":
            return SYMBOL_VALUE
        if val is sp.nan:
            return math.nan
        try:
            return float(val)
        except (TypeError, ValueError):
            return str(val)
    args = [np.float64(v) for v in (s1, s2, m0, *m)]
    if outside == "symbol":
        args.append(np.float64(SYMBOL_VALUE))
    with np.errstate(all="ignore"):
        val = under_test("indicator(numpy)", _indicator(outside), *args)
    try:
        return float(val)
    except (TypeError, ValueError):
        return str(val)


def _expected_outside(outside):
    return {"nan": math.nan, "zero": 0.0, "minus_one": -1.0, "symbol": SYMBOL_VALUE}[outside]


def _matches(got, want) -> bool:
    if isinstance(got, str):
        return False
    if math.isnan(want):
        return math.isnan(got)
    return got == want


# ----------------------------------------------------------------------- reference
def _classify(s1, s2, m0, m):
    """Reference classification of the double-precision point (sigma1, sigma2).

    Returns (inside?, assertable?, labels, info)."""
    m1, m2, m3 = m
    lo, hi = dz.pdg_limits(s1, m0, m1, m2, m3)
    s2m = dz.mpf(s2)
    inside = lo <= s2m <= hi
    rel = min(abs(s2m - lim) / max(abs(lim), abs(s2m), dz.mpf(1e-300)) for lim in (lo, hi))
    # exact Kibble value and the magnitude of the terms a double evaluation has to cancel
    m0s, m1s, m2s, m3s = (dz.mpf(v) ** 2 for v in (m0, m1, m2, m3))
    s1m = dz.mpf(s1)
    s3m = m0s + m1s + m2s + m3s - s1m - s2m
    lam = [dz.kallen(s, ms, m0s) for s, ms in ((s1m, m1s), (s2m, m2s), (s3m, m3s))]
    phi = dz.kallen(*lam)
    size = sum((m0s + ms + abs(s)) ** 2 for s, ms in ((s1m, m1s), (s2m, m2s), (s3m, m3s))) ** 2
    labels = []
    assertable = True
    if rel <= ON_BOUNDARY_REL:
        labels.append("on_boundary")
        assertable = False
    if abs(phi) <= RES * size:
        labels.append("below_double_resolution")
        assertable = False
    if (phi <= 0) != inside and assertable:
        # the two references (PDG limits, sign of the exact Kibble value) must agree inside the box
        labels.append("reference_disagreement")
    info = {"lo": float(lo), "hi": float(hi), "rel_distance": float(rel), "kibble_exact": float(phi),
            "kibble_scale": float(size)}
    return bool(inside), assertable, labels, info


def _mass_labels(m):
    n_massless = sum(1 for v in m if v == 0.0)
    return [f"massless:{n_massless}",
            {1: "masses:all_equal", 2: "masses:two_equal", 3: "masses:distinct"}[len(set(m))]]


def _check_indicator(desc, s1, s2, m0, m, labels, nontrivial_base):
    inside, assertable, extra, info = _classify(s1, s2, m0, m)
    labels = [*labels, *extra, "inside" if inside else "outside", f"route:{desc['route']}", f"outside_value:{desc['outside']}"]
    if "reference_disagreement" in extra:
        # never observed; would mean the box reaches a crossed-channel region: out of scope, do not judge
        return None, ok(False, labels, **info)
    nontrivial = nontrivial_base and assertable and info["rel_distance"] >= 1e-6
    got = _indicator_value(desc["route"], desc["outside"], s1, s2, m0, m)
    info.update(sigma1=s1, sigma2=s2, m0=m0, m=list(m), got=got)
    if not assertable:
        return None, ok(False, labels, **info)
    want = 1.0 if inside else _expected_outside(desc["outside"])
    if not _matches(got, want):
        kind = "indicator_not_1_inside" if inside else "indicator_not_outside_value_outside"
        return None, violation(kind, nontrivial, labels, want=want, **info)
    return (labels, nontrivial, info), None


# ----------------------------------------------------------------------- cases
def _run_event(desc) -> Result:
    m = [float(v) for v in desc["m"]]
    m0 = sum(m) + float(desc["q"])
    if not m0 > sum(m):
        return ok(False, ["degenerate:no_energy_release"])
    p, _ = dz.make_event(m0, m, desc["spect"], desc["x"], desc["theta"], desc["phi"], desc["euler"])
    sig = {k: dz.minkowski2(dz.add(p[dz.others(k)[0]], p[dz.others(k)[1]])) for k in dz.IDS}
    s1, s2, s3_ref = float(sig[1]), float(sig[2]), float(sig[3])
    labels = ["event", *_mass_labels(m)]
    distinct = len(set(m)) == 3

    # third Mandelstam variable: symbolic route and plain-float route
    from ampform.kinematics.phasespace import compute_third_mandelstam  # noqa: PLC0415

    scale = m0 * m0 + sum(v * v for v in m) + s1 + s2
    with np.errstate(all="ignore"):
        s3_sym = float(under_test("third(numpy)", _third(), *[np.float64(v) for v in (s1, s2, m0, *m)]))
    s3_flt = float(under_test("compute_third_mandelstam(floats)", compute_third_mandelstam, s1, s2, m0, *m))
    for name, got in (("lambdify", s3_sym), ("floats", s3_flt)):
        if not abs(got - s3_ref) <= 1e-13 * scale:
            return violation("third_mandelstam_differs_from_invariant_mass", distinct, labels, route=name, got=got,
                             want=s3_ref, tolerance=1e-13 * scale, sigma1=s1, sigma2=s2, m0=m0, m=m)

    # Kibble of the three <= 0
    size = sum((m0 * m0 + ms * ms + s) ** 2 for s, ms in ((s1, m[0]), (s2, m[1]), (s3_flt, m[2]))) ** 2
    with np.errstate(all="ignore"):
        kib = float(under_test("Kibble(numpy)", _kibble(), *[np.float64(v) for v in (s1, s2, s3_flt, m0, *m)]))
    if not kib <= RES * size:
        return violation("kibble_positive_for_physical_event", distinct, labels, kibble=kib, tolerance=RES * size,
                         sigma=[s1, s2, s3_flt], m0=m0, m=m)

    # indicator
    if min(s1, s2, s3_ref) <= 1e-25 * m0 * m0:
        # two exactly collinear massless particles: a corner of the bounding box, no pair rest frame for the
        # PDG limits
        return ok(False, [*labels, "degenerate:massless_pair_with_zero_invariant_mass"])
    passed, res = _check_indicator(desc, s1, s2, m0, m, labels, distinct)
    if res is not None:
        return res
    labels, nontrivial, info = passed
    if not info["rel_distance"] >= 0:  # pragma: no cover
        return ok(False, labels)
    return ok(nontrivial, labels, kibble=kib, kibble_over_scale=kib / size, **info)


def _run_grid(desc) -> Result:
    m = [float(v) for v in desc["m"]]
    m0 = sum(m) + float(desc["q"])
    if not m0 > sum(m):
        return ok(False, ["degenerate:no_energy_release"])
    m1, m2, m3 = m
    box1 = ((m2 + m3) ** 2, (m0 - m1) ** 2)
    box2 = ((m1 + m3) ** 2, (m0 - m2) ** 2)
    s1 = box1[0] + float(desc["u1"]) * (box1[1] - box1[0])
    if not box1[0] < s1 < box1[1]:
        return ok(False, ["degenerate:sigma1_on_box_edge"])
    spec = desc["s2"]
    labels = ["grid", f"sigma2:{spec['mode']}", *_mass_labels(m)]
    if spec["mode"] == "uniform":
        s2 = box2[0] + float(spec["u"]) * (box2[1] - box2[0])
    else:
        lo, hi = dz.pdg_limits(s1, m0, m1, m2, m3)
        lim = float(lo if spec["limit"] == "lo" else hi)
        s2 = lim + spec["side"] * float(spec["d"]) * m0 * m0
        labels.append(f"near:{spec['limit']}:{'above' if spec['side'] > 0 else 'below'}")
    if not box2[0] <= s2 <= box2[1]:
        return ok(False, [*labels, "outside_box"])
    passed, res = _check_indicator(desc, s1, s2, m0, m, labels, len(set(m)) == 3)
    if res is not None:
        return res
    labels, nontrivial, info = passed
    return ok(nontrivial, labels, **info)


def _int_kallen(x, y, z):
    return x * x + y * y + z * z - 2 * x * y - 2 * y * z - 2 * z * x


def _boundary_event(desc):
    """Integer (m, p, E) of three collinear particles with p1+p2+p3 = 0, or None (all at rest)."""
    parts = []
    for idx, scale, sign in desc["parts"]:
        m, p, e = (scale * v for v in _TRIPLES[idx])
        parts.append((m, sign * p, e))
    big_p = -(parts[0][1] + parts[1][1])
    if big_p == 0:
        k = int(desc["rest_mass"])
        parts.append((k, 0, k))
    else:
        sq = big_p * big_p
        options = [(0, abs(big_p))]  # massless
        for d1 in range(1, abs(big_p)):
            if sq % d1 == 0 and (sq // d1 - d1) % 2 == 0:
                d2 = sq // d1
                options.append(((d2 - d1) // 2, (d1 + d2) // 2))
        m, e = options[int(desc["third"]) % len(options)]
        parts.append((m, big_p, e))
    if all(p == 0 for _, p, _ in parts):
        return None
    return [parts[i] for i in desc["perm"]]


def _run_boundary_exact(desc) -> Result:
    from ampform.kinematics.phasespace import Kibble, compute_third_mandelstam, is_within_phasespace  # noqa: PLC0415

    parts = _boundary_event(desc)
    if parts is None:
        return ok(False, ["boundary_exact", "degenerate:all_at_rest"])
    m = [q[0] for q in parts]
    m0 = sum(q[2] for q in parts)
    if not m0 > sum(m):  # pragma: no cover - a moving particle has E > m
        raise RuntimeError(f"boundary construction without energy release: {parts}")

    def pair(i, j):
        return (parts[i][2] + parts[j][2]) ** 2 - (parts[i][1] + parts[j][1]) ** 2

    s1, s2, s3 = pair(1, 2), pair(0, 2), pair(0, 1)
    lam = [_int_kallen(s, mi * mi, m0 * m0) for s, mi in zip((s1, s2, s3), m)]
    if _int_kallen(*lam) != 0 or s1 + s2 + s3 != m0 * m0 + sum(v * v for v in m):  # pragma: no cover
        raise RuntimeError(f"reference construction is not on the boundary: {parts}")
    n_rest = sum(1 for q in parts if q[1] == 0)
    labels = ["boundary_exact", f"route:{desc['route']}", f"outside_value:{desc['outside']}", f"at_rest:{n_rest}",
              f"massless:{sum(1 for v in m if v == 0)}",
              {1: "masses:all_equal", 2: "masses:two_equal", 3: "masses:distinct"}[len(set(m))]]
    if min(s1, s2, s3) == 0:
        labels.append("massless_pair_with_zero_invariant_mass")
    nontrivial = len(set(m)) >= 2
    info = {"sigma1": s1, "sigma2": s2, "sigma3": s3, "m0": m0, "m": m}
    ints = [sp.Integer(v) for v in (s1, s2, m0, *m)]
    got3 = under_test("compute_third_mandelstam(integers)", compute_third_mandelstam, *ints)
    if got3 != s3:
        return violation("third_mandelstam_differs_from_invariant_mass", nontrivial, labels, route="integers",
                         got=str(got3), want=s3, **info)
    kib = under_test("Kibble(integers).doit", lambda: Kibble(*[sp.Integer(v) for v in (s1, s2, s3, m0, *m)]).doit())
    if not kib <= 0:
        return violation("kibble_positive_for_physical_event", nontrivial, labels, kibble=str(kib), tolerance=0, **info)
    route = desc["route"]
    if route == "lambdify" and m0 > 40:
        route = "doit"  # integers no longer exact in doubles
        labels.append("too_large_for_exact_doubles")
    if route == "doit":
        out = _outside_sympy(desc["outside"])
        expr = under_test("is_within_phasespace(integers)", is_within_phasespace, *ints, outside_value=out)
        val = under_test("is_within_phasespace(integers).doit", expr.doit)
        got = 1.0 if val == 1 else str(val)
    else:
        got = _indicator_value("lambdify", desc["outside"], float(s1), float(s2), float(m0), [float(v) for v in m])
    if not _matches(got, 1.0):
        return violation("indicator_not_1_inside", nontrivial, labels, want=1.0, got=got, on_boundary=True, **info)
    return ok(nontrivial, labels, **info)


def _run_raw(desc) -> Result:
    m = [float(v) for v in desc["m"]]
    want_inside = (desc["s1"], desc["s2"]) != (0.0, 3.0)
    got = _indicator_value(desc["route"], desc["outside"], desc["s1"], desc["s2"], desc["m0"], m)
    want = 1.0 if want_inside else _expected_outside(desc["outside"])
    labels = ["test_suite_point", f"route:{desc['route']}", f"outside_value:{desc['outside']}"]
    if desc["s1"] == 0.0 and desc["route"] == "lambdify":
        labels.append("sigma1=0")
    if not _matches(got, want):
        return violation("test_suite_point_misclassified", False, labels, got=got, want=want, sigma1=desc["s1"],
                         sigma2=desc["s2"])
    return ok(False, labels, got=got)


def _run_kallen(desc) -> Result:
    x, y, z = (float(v) for v in desc["xyz"])
    labels = ["kallen", f"zeros:{sum(1 for v in (x, y, z) if v == 0.0)}"]
    nontrivial = len({x, y, z}) == 3 and min(x, y, z) > 0.0
    f = _kallen()
    tol = 1e-14 * (x + y + z) ** 2 + 1e-300  # the floor covers underflow to subnormals
    with np.errstate(all="ignore"):
        base = float(under_test("Kallen(numpy)", f, np.float64(x), np.float64(y), np.float64(z)))
        for perm in itertools.permutations((x, y, z)):
            got = float(under_test("Kallen(numpy)", f, *[np.float64(v) for v in perm]))
            if not abs(got - base) <= tol:
                return violation("kallen_not_symmetric", nontrivial, labels, args=list(perm), got=got, base=base,
                                 tolerance=tol)
    ref = float(dz.kallen_factorised(x, y, z))
    if not abs(base - ref) <= tol:
        return violation("kallen_differs_from_factorised_form", nontrivial, labels, args=[x, y, z], got=base,
                         want=ref, tolerance=tol)
    return ok(nontrivial, labels, value=base)


def _run_kallen_exact(desc) -> Result:
    from ampform.kinematics.phasespace import Kallen  # noqa: PLC0415

    x, a, b = (Fraction(*desc[k]) for k in ("x", "a", "b"))
    y, z = a * a, b * b
    labels = ["kallen_exact"]
    nontrivial = len({x, y, z}) == 3 and min(x, y, z) > 0

    def lib(u, v, w):
        val = under_test("Kallen(rationals).doit",
                         lambda: Kallen(sp.Rational(u.numerator, u.denominator), sp.Rational(v.numerator, v.denominator),
                                        sp.Rational(w.numerator, w.denominator)).doit())
        return Fraction(int(val.p), int(val.q)) if isinstance(val, sp.Rational) else None

    want = (x - (a + b) ** 2) * (x - (a - b) ** 2)
    for perm in itertools.permutations((x, y, z)):
        got = lib(*perm)
        if got != want:
            return violation("kallen_exact_value", nontrivial, labels, args=[str(v) for v in perm], got=str(got),
                             want=str(want))
    return ok(nontrivial, labels, value=str(want))


def _run_kallen_symbolic() -> Result:
    from ampform.kinematics.phasespace import Kallen  # noqa: PLC0415

    x, a, b = sp.symbols("x a b", nonnegative=True)
    y, z = sp.symbols("y z", nonnegative=True)
    base = under_test("Kallen.doit", lambda: Kallen(x, y, z).doit())
    for perm in itertools.permutations((x, y, z)):
        other = under_test("Kallen.doit", lambda perm=perm: Kallen(*perm).doit())
        if sp.expand(base - other) != 0:
            return violation("kallen_not_symmetric", True, ["kallen_symbolic"], args=[str(v) for v in perm],
                             difference=str(sp.expand(base - other)))
    fact = (x - (a + b) ** 2) * (x - (a - b) ** 2)
    val = under_test("Kallen.doit", lambda: Kallen(x, a**2, b**2).doit())
    if sp.expand(val - fact) != 0:
        return violation("kallen_differs_from_factorised_form", True, ["kallen_symbolic"],
                         difference=str(sp.expand(val - fact)))
    return ok(True, ["kallen_symbolic"])


def run_case(desc) -> Result:
    kind = desc["kind"]
    if kind == "event":
        return _run_event(desc)
    if kind == "grid":
        return _run_grid(desc)
    if kind == "boundary_exact":
        return _run_boundary_exact(desc)
    if kind == "raw":
        return _run_raw(desc)
    if kind == "kallen":
        return _run_kallen(desc)
    if kind == "kallen_exact":
        return _run_kallen_exact(desc)
    return _run_kallen_symbolic()
