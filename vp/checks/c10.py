"""C10 — production vectors solve the K-matrix equation and honour their arguments.

Case = (configuration, regime, point_seed).  Configuration = (class, channels, poles, L,
meson radius, phase-space factor, hat flag, prior call, route); formulated and lambdified
once per process.  Three oracles:

(a) residual.  K, P and rho are built *by the harness* from the library's own
    ``parametrization`` static methods called with the caller's arguments, evaluated with
    numpy and combined with dense linear algebra:
      NonRelativisticPVector   (1 - iK) F = P
      RelativisticPVector      K^ = (sqrt(rho)^*)^-1 K sqrt(rho)^-1,  (1 - i K^ rho) F^ = P,
                               F = sqrt(rho) F^     (k-matrix.ipynb, eqs F-in-terms-of-P,
                               "K-hat in terms of K", invariant-vectors)
      NonRelativisticKMatrix   T (1 - iK) = K
      RelativisticKMatrix      T^ (1 - i rho K) = K,  T = sqrt(rho)^* T^ sqrt(rho)
                               (eq. T-hat-in-terms-of-K-hat as implemented/documented)
    with ``return_f_hat`` / ``return_t_hat`` on and off.
(b) structure.  Walking the result *before* ``doit()`` (plus one unfolding of every
    `EnergyDependentWidth` and `FormFactor`): the set of phase-space classes that occur is
    exactly the caller's; every `EnergyDependentWidth.phsp_factor` *is* the caller's
    object; every `EnergyDependentWidth` / `FormFactor` / `BlattWeisskopfSquared` carries
    the caller's angular momentum and meson radius.
(c) reduction (1 channel, 1 pole), numerically, against the library's Breit-Wigner
    functions as documented in k-matrix.ipynb (with the documented residue function
    ``g = gamma sqrt(m Gamma)``; half of every batch has gamma = 1, the literal statement):
      NonRelativisticKMatrix   T = relativistic_breit_wigner(s, m, gamma^2 Gamma)
      NonRelativisticPVector   gamma F = beta relativistic_breit_wigner(s, m, gamma^2 Gamma)
      RelativisticKMatrix      rho T^ = relativistic_breit_wigner(s, m, gamma^2 rho(s) Gamma(s)),
                               Gamma(s) = EnergyDependentWidth   ("width replaced by an
                               EnergyDependentWidth ... additional phase space factor in the
                               denominator"), T = sqrt(rho)^* T^ sqrt(rho)
      RelativisticPVector      gamma F^ = beta relativistic_breit_wigner_with_ff(s, m, gamma^2 Gamma0, ...),
                               F = sqrt(rho) F^   ("when we neglect sqrt(rho) ... reduces to
                               relativistic_breit_wigner_with_ff", "additional factor beta")

All inputs are passed as complex arrays with zero imaginary part, so that points with s
below a threshold or a pole below a threshold are finite for every phase-space factor;
the identities are algebraic and hold there as well.
"""

from __future__ import annotations

import functools
import os

import numpy as np
import sympy as sp
from hypothesis import strategies as st

from vp.harness import Result, ok, under_test, violation
from vp.ref import kmat

PROPERTY = "C10"
RULE = (
    "Hypothesis draws (configuration, regime, point_seed); configuration = (class NRPV|RPV|NRK|RK, n_channels,"
    " n_poles, L, meson radius 1|3/2|symbol, one of 9 phase-space factors (5 classes, BreakupMomentumSquared,"
    " chew_mandelstam_s_wave, a probe class and a probe function), return_*_hat, a prior formulate call with the"
    " opposite flag, route) from a per-tier list (quick: 20 configurations with <=2 channels + one 3-channel"
    " configuration per shard; thorough: full grid); each case evaluates a batch of real parameter points (64"
    " quick, 512 thorough; half of them with s below the highest threshold) and runs the residual, structural"
    " and (1x1 only) reduction oracles. Non-trivial: (non-default phase-space factor or L>0 or n_channels>=2)"
    " and >=20 points asserted with a non-vacuous tolerance. Distinct = distinct descriptor hash."
)
ASSUMPTIONS = [
    "K, P, rho of the reference are the library's own parametrization static methods / the caller's phase-space"
    " factor (as the statement says), unfolded and evaluated by the harness; the linear algebra is numpy's",
    "numeric value = lambdify(numpy) of doit() (route doit) or of the same tree with sums unrolled and every"
    " unevaluated node unfolded once (route compose); complex128 inputs with zero imaginary part",
    "residual tolerance 1e-9 * scale * cond, scale = |P| + n(1+|K|)|F|, cond = max(1,|K| resp. |K^ rho|)^(n-1);"
    " cond additionally multiplied by the measured rounding-noise amplification of the reference (re-evaluation with"
    " inputs moved by 8, 64, 512 ulp; result and reference); reduction tolerance 1e-9 relative times that amplification, RelativisticPVector"
    " reduction only where rho is real positive; points with 1e-9*cond > 1e-3, non-finite reference values, values"
    " whose finiteness changes under the 8..512 ulp perturbation (e.g. log(0) by cancellation in chew_mandelstam_s_wave"
    " for s >> m1 m2), Chew-Mandelstam based factors with max(s, m_R^2)/(m_a m_b) > 1e5 (the library's formula"
    " cancels all digits from ~1e8 on) or a rho within"
    " 1e-9 (angle) of the negative real axis (sqrt branch cut) are not asserted",
    "3-channel RelativisticPVector is not generated: its formulate() (symbolic 3x3 inverse with nested sqrt(rho) factors) did not terminate within 25 minutes",
]
BUDGET = {
    "quick": {"examples": 1280, "shards": 16, "cap_s": 150, "shrink_calls": 150, "shrink_s": 60},
    "thorough": {"examples": 14400, "shards": 16, "cap_s": 1500, "shrink_calls": 600, "shrink_s": 240},
}
BATCH = {"quick": 64, "thorough": 512}
TOL = 1e-9
VACUOUS = 1e-3


def _cfg(cls, nc, npo, ell=0, d="1", phsp="PhaseSpaceFactor", hat=False, prior=False, route="compose"):
    return {"cls": cls, "nc": nc, "np": npo, "L": ell, "d": d, "phsp": phsp, "hat": hat, "prior": prior,
            "route": route}


LIGHT = [
    _cfg("NRPV", 1, 1, route="doit"),
    _cfg("NRPV", 1, 3, route="doit"),
    _cfg("NRPV", 2, 2),
    _cfg("NRPV", 2, 3),
    _cfg("NRK", 1, 1, route="doit"),
    _cfg("NRK", 2, 2),
    _cfg("RPV", 1, 1, 0, "1", "PhaseSpaceFactor", False, False, "doit"),
    _cfg("RPV", 1, 1, 2, "sym", "ProbeClass", True, True),
    _cfg("RPV", 1, 2, 1, "3/2", "PhaseSpaceFactorSWave", False, True),
    _cfg("RPV", 1, 3, 0, "1", "chew_mandelstam_s_wave", True, False),
    _cfg("RPV", 2, 1, 0, "1", "PhaseSpaceFactorAbs", True, True),
    _cfg("RPV", 2, 2, 1, "sym", "PhaseSpaceFactorComplex", False, True),
    _cfg("RPV", 2, 3, 3, "1", "EqualMassPhaseSpaceFactor", False, False),
    _cfg("RPV", 2, 1, 4, "3/2", "probe_function", True, False),
    _cfg("RPV", 2, 2, 2, "sym", "BreakupMomentumSquared", True, False),
    _cfg("RK", 1, 1, 1, "3/2", "PhaseSpaceFactorAbs", False, False, "doit"),
    _cfg("RK", 1, 1, 0, "1", "PhaseSpaceFactor", True, True),
    _cfg("RK", 1, 1, 3, "sym", "probe_function", False, True),
    _cfg("RK", 2, 2, 2, "sym", "ProbeClass", True, True),
    _cfg("RK", 2, 1, 0, "1", "PhaseSpaceFactorSWave", False, True),
]
HEAVY = [
    _cfg("NRPV", 3, 2),
    _cfg("RK", 3, 1, 1, "sym", "PhaseSpaceFactorComplex", True, False),
    _cfg("NRK", 3, 3),
    _cfg("RK", 3, 2, 0, "1", "ProbeClass", False, False),
]
REGIMES = ["generic", "generic", "near_threshold", "near_pole", "wide", "degenerate", "subthreshold_pole"]


def shard_env(k, tier):
    return {"VP_KMAT_SHARD": str(k)}


def _config_strategy(tier):
    # NB: only `sampled_from` over lists of < 256 entries, combined with `tuples` (see c09._config_strategy)
    if tier == "quick":
        k = int(os.environ.get("VP_KMAT_SHARD", "0"))
        return st.one_of(st.sampled_from(LIGHT), st.sampled_from(LIGHT), st.just(HEAVY[k % len(HEAVY)]))
    shape = st.sampled_from([(nc, npo) for nc in (1, 2, 3) for npo in (1, 2, 3)])
    dyn = st.sampled_from([(ell, d) for ell in range(5) for d in ("1", "3/2", "sym")])
    args = st.sampled_from([
        (phsp, hat, prior) for phsp in kmat.PHSP_NAMES for hat in (False, True) for prior in (False, True)
    ])
    cls = st.sampled_from(["RPV", "RPV", "RK", "RK", "NRPV", "NRK"])

    def build(t):
        (kind, (nc, npo), (ell, d), (phsp, hat, prior)) = t
        if kind in {"NRPV", "NRK"}:
            return _cfg(kind, nc, npo)
        if kind == "RPV":
            nc = min(nc, 2)  # 3 channels: formulate() does not terminate
        return _cfg(kind, nc, npo, ell, d, phsp, hat, prior)

    return st.tuples(cls, shape, dyn, args).map(build)


def strategy(tier):
    return st.fixed_dictionaries({
        "config": _config_strategy(tier),
        "regime": st.sampled_from(REGIMES),
        # six bytes instead of one big integer (Hypothesis draws big integers mostly below 2^16 and repeats them)
        "point_seed": st.lists(st.integers(0, 255), min_size=6, max_size=6),
        "batch": st.just(BATCH[tier]),
    })


def fixed_cases(tier):
    # regression witness of 73e03a9 (phsp_factor not forwarded to the K parametrisation), both flags
    return [
        {"config": _cfg("RPV", 1, 1, 0, "1", "ProbeClass", False, False, "doit"), "regime": "generic",
         "point_seed": 0, "batch": 64},
        {"config": _cfg("RPV", 1, 1, 0, "1", "PhaseSpaceFactorAbs", True, False, "doit"), "regime": "generic",
         "point_seed": 1, "batch": 64},
    ]


# ----------------------------------------------------------------------- building
def _radius(d: str):
    if d == "sym":
        return kmat.library_symbols()["d"]
    return sp.Rational(d)


class _Built:
    def __init__(self) -> None:
        self.problem = None  # (kind, detail) for violations found at build time
        self.result = None
        self.reference = None
        self.reduction = None
        self.structure = None


def _formulate(cfg_cls, nc, npo, ell, radius, phsp, hat, prior):
    from ampform.dynamics import kmatrix  # noqa: PLC0415

    if cfg_cls == "NRPV":
        return under_test("NonRelativisticPVector.formulate", kmatrix.NonRelativisticPVector.formulate,
                          n_channels=nc, n_poles=npo)
    if cfg_cls == "NRK":
        return under_test("NonRelativisticKMatrix.formulate", kmatrix.NonRelativisticKMatrix.formulate,
                          n_channels=nc, n_poles=npo)
    kwargs = {"angular_momentum": ell, "meson_radius": radius, "phsp_factor": phsp}
    if cfg_cls == "RPV":
        if prior:  # same process, same n_channels, other flag, default arguments: must not leak
            under_test("RelativisticPVector.formulate(prior)", kmatrix.RelativisticPVector.formulate,
                       n_channels=nc, n_poles=1, return_f_hat=not hat)
        return under_test("RelativisticPVector.formulate", kmatrix.RelativisticPVector.formulate,
                          n_channels=nc, n_poles=npo, return_f_hat=hat, **kwargs)
    if prior:
        under_test("RelativisticKMatrix.formulate(prior)", kmatrix.RelativisticKMatrix.formulate,
                   n_channels=nc, n_poles=1, return_t_hat=not hat)
    return under_test("RelativisticKMatrix.formulate", kmatrix.RelativisticKMatrix.formulate,
                      n_channels=nc, n_poles=npo, return_t_hat=hat, **kwargs)


def _reference_exprs(cfg_cls, nc, npo, ell, radius, phsp):
    """K (n*n), P (n, zeros for the T-matrix classes), rho (n, ones if non-relativistic)."""
    from ampform.dynamics import kmatrix  # noqa: PLC0415

    sy = kmat.library_symbols()
    s, m, width, resid, m_a, m_b, beta, pole = (sy[k] for k in ("s", "m", "Gamma", "gamma", "m_a", "m_b", "beta", "R"))
    rel = cfg_cls in {"RPV", "RK"}
    k_entries, p_entries, rho_entries = [], [], []
    for i in range(nc):
        for j in range(nc):
            if rel:
                k_entries.append(under_test(
                    "RelativisticKMatrix.parametrization", kmatrix.RelativisticKMatrix.parametrization,
                    i=i, j=j, s=s, pole_position=m, pole_width=width, m_a=m_a, m_b=m_b, residue_constant=resid,
                    n_poles=npo, pole_id=pole, angular_momentum=ell, meson_radius=radius, phsp_factor=phsp,
                ))
            else:
                k_entries.append(under_test(
                    "NonRelativisticKMatrix.parametrization", kmatrix.NonRelativisticKMatrix.parametrization,
                    i=i, j=j, s=s, pole_position=m, pole_width=width, residue_constant=resid, n_poles=npo,
                    pole_id=pole,
                ))
    for i in range(nc):
        if cfg_cls == "RPV":
            p_entries.append(under_test(
                "RelativisticPVector.parametrization", kmatrix.RelativisticPVector.parametrization,
                i=i, s=s, pole_position=m, pole_width=width, m_a=m_a, m_b=m_b, beta_constant=beta,
                residue_constant=resid, n_poles=npo, pole_id=pole, angular_momentum=ell, meson_radius=radius,
            ))
        elif cfg_cls == "NRPV":
            p_entries.append(under_test(
                "NonRelativisticPVector.parametrization", kmatrix.NonRelativisticPVector.parametrization,
                i=i, s=s, pole_position=m, pole_width=width, residue_constant=resid, beta_constant=beta,
                n_poles=npo, pole_id=pole,
            ))
        else:
            p_entries.append(sp.S.Zero)
        rho_entries.append(under_test("phsp_factor()", phsp, s, m_a[i], m_b[i]) if rel else sp.S.One)
    radicands = []
    if rel:
        # m_R Gamma_R,i(s): the argument of the square root inside the residue functions g_R,i
        from ampform.dynamics import EnergyDependentWidth  # noqa: PLC0415

        for r in range(1, npo + 1):
            for i in range(nc):
                radicands.append(m[r] * under_test(
                    "EnergyDependentWidth()", EnergyDependentWidth, s=s, mass0=m[r], gamma0=width[r, i], m_a=m_a[i],
                    m_b=m_b[i], angular_momentum=ell, meson_radius=radius, phsp_factor=phsp,
                ))
    return [*k_entries, *p_entries, *rho_entries, *radicands]


def _reduction_exprs(cfg_cls, ell, radius, phsp):
    """[Breit-Wigner reference, rho] for 1 channel and 1 pole, from the library's functions."""
    from ampform import dynamics  # noqa: PLC0415

    sy = kmat.library_symbols()
    s, m, width, resid = sy["s"], sy["m"][1], sy["Gamma"][1, 0], sy["gamma"][1, 0]
    m_a, m_b, beta = sy["m_a"][0], sy["m_b"][0], sy["beta"][1]
    if cfg_cls == "NRK":
        return [under_test("relativistic_breit_wigner", dynamics.relativistic_breit_wigner, s, m, resid**2 * width),
                sp.S.One]
    if cfg_cls == "NRPV":
        return [beta * under_test("relativistic_breit_wigner", dynamics.relativistic_breit_wigner, s, m,
                                  resid**2 * width), sp.S.One]
    rho = under_test("phsp_factor()", phsp, s, m_a, m_b)
    if cfg_cls == "RK":
        width_s = under_test("EnergyDependentWidth", dynamics.EnergyDependentWidth, s, m, width, m_a, m_b, ell,
                             radius, phsp)
        return [under_test("relativistic_breit_wigner", dynamics.relativistic_breit_wigner, s, m,
                           resid**2 * rho * width_s), rho]
    bw = under_test("relativistic_breit_wigner_with_ff", dynamics.relativistic_breit_wigner_with_ff, s, m,
                    resid**2 * width, m_a, m_b, ell, radius, phsp)
    return [beta * bw, rho]


def _structure(matrix, cfg_cls, ell, radius, phsp, phsp_name):
    """(kind, detail) of the first structural problem, or None."""
    from ampform.dynamics import EnergyDependentWidth  # noqa: PLC0415
    from ampform.dynamics.form_factor import BlattWeisskopfSquared, FormFactor  # noqa: PLC0415

    rel = cfg_cls in {"RPV", "RK"}
    classes = kmat.phsp_classes()
    by_type = {v: k for k, v in classes.items()}
    ell_s, radius_s = sp.sympify(ell), sp.sympify(radius)
    seen_phsp: set[str] = set()
    n_width = n_ff = n_bw = 0
    stack = [(entry, False) for entry in matrix]
    while stack:
        node, inside_ff = stack.pop()
        if type(node) in by_type and not inside_ff:
            seen_phsp.add(by_type[type(node)])
        if isinstance(node, EnergyDependentWidth):
            n_width += 1
            if node.phsp_factor is not phsp:
                return "foreign_phsp_factor_in_width", {
                    "got": getattr(node.phsp_factor, "__name__", str(node.phsp_factor)), "want": phsp_name}
            if node.angular_momentum != ell_s or node.meson_radius != radius_s:
                return "foreign_L_or_radius_in_width", {
                    "got": [str(node.angular_momentum), str(node.meson_radius)], "want": [str(ell_s), str(radius_s)]}
            stack.append((under_test("EnergyDependentWidth.evaluate", node.evaluate), inside_ff))
        elif isinstance(node, FormFactor):
            n_ff += 1
            if node.args[3] != ell_s or node.args[4] != radius_s:
                return "foreign_L_or_radius_in_form_factor", {
                    "got": [str(node.args[3]), str(node.args[4])], "want": [str(ell_s), str(radius_s)]}
            stack.append((under_test("FormFactor.evaluate", node.evaluate), True))
        elif isinstance(node, BlattWeisskopfSquared):
            n_bw += 1
            if node.args[1] != ell_s:
                return "foreign_L_in_blatt_weisskopf", {"got": str(node.args[1]), "want": str(ell_s)}
            if radius_s.free_symbols and not node.args[0].has(*radius_s.free_symbols):
                return "foreign_radius_in_blatt_weisskopf", {"got": str(node.args[0]), "want": str(radius_s)}
        stack.extend((arg, inside_ff) for arg in node.args)
    want = kmat.expected_phsp_classes(phsp_name) if rel else set()
    if seen_phsp != want:
        return "foreign_phsp_class", {"got": sorted(seen_phsp), "want": sorted(want)}
    # atoms(): sympy's own traversal (it does not look inside the widths, hence a subset)
    atom_names = {by_type[type(a)] for a in matrix.atoms(*classes.values())}
    if not atom_names <= want:
        return "foreign_phsp_class", {"got": sorted(atom_names), "want": sorted(want), "via": "atoms"}
    if rel and (n_width == 0 or (cfg_cls == "RPV" and n_ff == 0)):
        return "missing_width_or_form_factor", {"widths": n_width, "form_factors": n_ff}
    if not rel and (n_width or n_ff or n_bw):
        return "unexpected_width_or_form_factor", {"widths": n_width, "form_factors": n_ff}
    return None


@functools.lru_cache(maxsize=64)
def _built(cfg_cls, nc, npo, ell, d, phsp_name, hat, prior, route) -> _Built:
    out = _Built()
    radius = _radius(d)
    phsp = kmat.phsp_by_name(phsp_name)
    matrix = _formulate(cfg_cls, nc, npo, ell, radius, phsp, hat, prior)
    want_shape = (nc, 1) if cfg_cls.endswith("PV") else (nc, nc)
    if tuple(matrix.shape) != want_shape:
        out.problem = ("bad_shape", {"got": list(matrix.shape), "want": list(want_shape)})
        return out
    out.structure = _structure(matrix, cfg_cls, ell, radius, phsp, phsp_name)
    try:
        out.result = under_test("doit+lambdify", kmat.compile_matrix, matrix, route, (nc, npo),
                                allowed=(kmat.CompileError,))
        ref = _reference_exprs(cfg_cls, nc, npo, ell, radius, phsp)
        out.reference = under_test("reference doit+lambdify", kmat.Compiled, ref, (len(ref),), "compose", (nc, npo),
                                   allowed=(kmat.CompileError,))
        if nc == 1 and npo == 1:
            red = _reduction_exprs(cfg_cls, ell, radius, phsp)
            out.reduction = under_test("breit-wigner doit+lambdify", kmat.Compiled, red, (len(red),), "compose",
                                       (nc, npo), allowed=(kmat.CompileError,))
    except kmat.CompileError as exc:
        out.problem = ("bad_symbols", {"got": str(exc)})
    return out


# ----------------------------------------------------------------------- the case
def _point(vals, k) -> dict:
    return {name: np.asarray(arr)[k].tolist() for name, arr in vals.items()}


PERTURBATIONS = (8, 64, 512)  # ulp
CANCELLING_PHSP = {"PhaseSpaceFactorSWave", "chew_mandelstam_s_wave"}
CANCELLING_RANGE = 1e5  # max(s, m_R^2)/(m_a m_b) up to which the Chew-Mandelstam formula keeps >= 6 digits


def _perturbed(vals, seed, n_ulp):
    rng = np.random.default_rng(kmat.seed_entropy(seed, n_ulp))
    return {k: np.asarray(v) * (1 + n_ulp * kmat.EPS * rng.choice([-1.0, 1.0], np.shape(v)))
            for k, v in vals.items()}


def _amplification(ref_a, ref_b, n_ulp) -> np.ndarray:
    """Per point: max relative change of the values per relative change of the inputs (/16: a sum or
    product of a dozen inputs moves by that much without any cancellation), >= 1."""
    with np.errstate(all="ignore"):
        size = np.maximum(np.abs(ref_a), np.abs(ref_b))
        rel = np.where(size > 0, np.abs(ref_a - ref_b) / np.where(size > 0, size, 1.0), 0.0)
        rel = np.where(np.isfinite(rel), rel, 0.0).max(axis=1)
    return np.maximum(1.0, rel / (16 * n_ulp * kmat.EPS))


def _worst(mask, ratio):
    idx = np.flatnonzero(mask)
    return int(idx[np.argmax(ratio[mask])])


def run_case(desc) -> Result:  # noqa: C901, PLR0911, PLR0912, PLR0915
    cfg = desc["config"]
    cls, nc, npo = cfg["cls"], cfg["nc"], cfg["np"]
    rel, vector = cls in {"RPV", "RK"}, cls.endswith("PV")
    regime = desc["regime"]
    if not rel and regime in {"near_threshold", "subthreshold_pole"}:
        regime = "generic"
    labels = [f"cls={cls}", f"channels={nc}", f"poles={npo}", f"regime={regime}", f"route={cfg['route']}"]
    if rel:
        labels += [f"L={cfg['L']}", f"d={cfg['d']}", f"phsp={cfg['phsp']}", f"hat={cfg['hat']}", f"prior={cfg['prior']}"]
    built = _built(cls, nc, npo, cfg["L"], cfg["d"], cfg["phsp"], bool(cfg["hat"]), bool(cfg["prior"]), cfg["route"])
    interesting = (rel and cfg["phsp"] != "PhaseSpaceFactor") or (rel and cfg["L"] > 0) or nc >= 2
    if built.problem is not None:
        return violation(built.problem[0], interesting, labels, **built.problem[1])
    if built.structure is not None:
        return violation(built.structure[0], interesting, labels, **built.structure[1])

    batch = int(desc["batch"])
    vals = kmat.draw_points(desc["point_seed"], regime, nc, npo, batch, beta=True, s_below=rel)
    if cfg["d"] != "sym":
        vals["d"] = np.full_like(vals["s"], float(sp.Rational(cfg["d"])))
    if nc == 1 and npo == 1:
        vals["gamma"][: batch // 2] = 1.0  # the literal statement of the notebook
    got = built.result(vals, as_complex=True)  # (B, n, n) or (B, n, 1)
    ref = built.reference(vals, as_complex=True)  # (B, n*n + 2n)
    # rounding-noise amplification of the reference (K, P, rho) and of the result: re-evaluate with every input
    # moved by 8/64/512 ulp (e.g. the Chew-Mandelstam function loses ~9 digits for s >> m1 m2, and result and reference
    # evaluate it in a different order after common-subexpression elimination)
    amp = np.ones(batch)
    perturbed = []
    got_flat = got.reshape(batch, -1)
    finite_0 = np.isfinite(got_flat).all(axis=1) & np.isfinite(ref).all(axis=1)
    unstable = np.zeros(batch, dtype=bool)  # finite here, inf/nan a few ulp away, or the other way round
    for n_ulp in PERTURBATIONS:
        vals_p = _perturbed(vals, desc["point_seed"], n_ulp)
        perturbed.append((vals_p, n_ulp))
        ref_p = built.reference(vals_p, as_complex=True)
        got_p = built.result(vals_p, as_complex=True).reshape(batch, -1)
        unstable |= (np.isfinite(got_p).all(axis=1) & np.isfinite(ref_p).all(axis=1)) != finite_0
        amp = np.maximum(amp, _amplification(ref, ref_p, n_ulp))
        amp = np.maximum(amp, _amplification(got_flat, got_p, n_ulp))
    k_mat = ref[:, : nc * nc].reshape(batch, nc, nc)
    p_vec = ref[:, nc * nc : nc * nc + nc]
    rho = ref[:, nc * nc + nc : nc * nc + 2 * nc]
    eye = np.eye(nc)
    with np.errstate(all="ignore"):
        sq = np.sqrt(rho)
        on_cut = ((rho.real < 0) & (np.abs(rho.imag) <= 1e-9 * np.abs(rho))).any(axis=1)
        # g_R,i = gamma sqrt(m_R Gamma_R,i(s)): with a pole below a threshold and L >= 1 the ratio of form factors can
        # make the width *negative real*; numpy's complex sqrt then picks +i or -i by the sign of a zero imaginary
        # part, i.e. by the order of operations, so two lambdifications of the same K (the library's F and this
        # reference) may sit on different branches: such points have no reference (exact arithmetic agrees)
        radicand = ref[:, nc * nc + 2 * nc :]
        if radicand.shape[1]:
            cut_inside = ((radicand.real < 0) & (np.abs(radicand.imag) <= 1e-9 * np.abs(radicand))).any(axis=1)
            if cut_inside.any():
                labels.append("residue_radicand_on_branch_cut")
            on_cut |= cut_inside
        usable = np.isfinite(ref).all(axis=1) & (np.abs(rho) > 0).all(axis=1) & ~on_cut & ~unstable
        if rel and cfg["phsp"] in CANCELLING_PHSP:
            # log((m1^2+m2^2-s+2 sqrt(s) q)/(2 m1 m2)): the numerator is ~ -2(m1 m2)^2/s, computed from terms of
            # size s: relative noise eps (s/(m1 m2))^2/2, i.e. 100% ("stable garbage" that differs between two
            # orders of evaluation and does not move under perturbation) from s/(m1 m2) ~ 1e8
            top = np.maximum(vals["s"], (vals["m"] ** 2).max(axis=1))
            in_range = (top[:, None] / (vals["m_a"] * vals["m_b"]) <= CANCELLING_RANGE).all(axis=1)
            if (~in_range).any():
                labels.append("outside_double_precision_range_of_chew_mandelstam")
            usable &= in_range
        if vector:
            f_got = got[:, :, 0]
            f_hat = f_got if (cfg["hat"] or not rel) else f_got / sq
            # K^ rho = (sqrt(rho)^*)^-1 K sqrt(rho)^-1 rho ; non-relativistic: rho = 1
            khr = k_mat / np.conj(sq)[:, :, None] / sq[:, None, :] * rho[:, None, :]
            lhs = np.einsum("bij,bj->bi", eye - 1j * khr, f_hat)
            resid = np.abs(lhs - p_vec).max(axis=1)
            kmax = np.abs(khr).max(axis=(1, 2))
            scale = np.abs(p_vec).max(axis=1) + nc * (1 + kmax) * np.abs(f_hat).max(axis=1)
        else:
            t_hat = got if (cfg["hat"] or not rel) else got / np.conj(sq)[:, :, None] / sq[:, None, :]
            rk = rho[:, :, None] * k_mat
            lhs = np.einsum("bij,bjk->bik", t_hat, eye - 1j * rk)
            resid = np.abs(lhs - k_mat).max(axis=(1, 2))
            kmax = np.abs(rk).max(axis=(1, 2))
            scale = np.abs(k_mat).max(axis=(1, 2)) + nc * (1 + kmax) * np.abs(t_hat).max(axis=(1, 2))
    kmax = np.where(np.isfinite(kmax), np.maximum(kmax, 1.0), np.inf)
    cond = kmax ** max(nc - 1, 0) * amp
    asserted = usable & (TOL * cond <= VACUOUS)
    if (usable & (amp > 1e3)).any():
        labels.append("ill_conditioned_reference")
    got_finite = np.isfinite(got).all(axis=(1, 2))
    thr_max = ((vals["m_a"] + vals["m_b"]) ** 2).max(axis=1)
    if rel and (vals["s"] < thr_max).any():
        labels.append("s_below_threshold")
    if rel and not kmat.poles_above_thresholds(vals).all():
        labels.append("pole_below_threshold")
    if (~usable).any():
        labels.append("points_without_reference")
    if unstable.any():
        labels.append("numerically_unstable_points")
    if (usable & ~asserted).any():
        labels.append("vacuous_points")
    if (kmat.pole_distance(vals) < 1e-3).any():
        labels.append("near_pole<1e-3")
    nontrivial = interesting and int(asserted.sum()) >= 20

    bad = asserted & ~got_finite & (amp <= 1e3)  # inf/nan at an ill-conditioned point is rounding, not a defect
    if (asserted & ~got_finite & (amp > 1e3)).any():
        labels.append("non_finite_at_ill_conditioned_point")
    asserted &= got_finite
    if bad.any():
        k = int(np.flatnonzero(bad)[0])
        return violation("non_finite_result", nontrivial, labels, n_bad=int(bad.sum()), index=k, point=_point(vals, k))
    with np.errstate(all="ignore"):
        tol = TOL * scale * cond
        ratio = np.where(asserted, resid / tol, 0.0)
    bad = asserted & ~(resid <= tol)
    if bad.any():
        k = _worst(bad, ratio)
        return violation(
            "f_equation_residual" if vector else "t_equation_residual", nontrivial, labels,
            n_bad=int(bad.sum()), n_asserted=int(asserted.sum()), got=float(resid[k]), tolerance=float(tol[k]),
            cond=float(cond[k]), index=k, point=_point(vals, k),
            result=[repr(complex(x)) for x in got[k].ravel()],
        )
    worst_red = 0.0
    if built.reduction is not None:
        red = built.reduction(vals, as_complex=True)  # (B, 2): Breit-Wigner reference, rho
        bw, rho1 = red[:, 0], red[:, 1]
        with np.errstate(all="ignore"):
            sq1 = np.sqrt(rho1)
            resid_c = vals["gamma"][:, 0, 0]
            value = got[:, 0, 0]
            if cls == "NRK":
                lhs_c = value
            elif cls == "NRPV":
                lhs_c = resid_c * value
            elif cls == "RK":
                # rho T^ = BW ;  T = sqrt(rho)^* T^ sqrt(rho)
                lhs_c = rho1 * value if cfg["hat"] else value * rho1 / (np.conj(sq1) * sq1)
            else:
                # gamma F^ = beta BW_ff ;  F = sqrt(rho) F^
                lhs_c = resid_c * value if cfg["hat"] else resid_c * value / sq1
            diff = np.abs(lhs_c - bw)
            size = np.maximum(np.abs(lhs_c), np.abs(bw))
            ok_pts = usable & np.isfinite(bw) & np.isfinite(rho1) & got_finite
            if cls == "RPV":
                # "when we neglect sqrt(rho)" replaces sqrt(rho) *and* its conjugate by 1: a statement
                # about real positive rho (for complex rho the ratio sqrt(rho)/sqrt(rho)^* remains in F^)
                ok_pts &= (rho1.real > 0) & (np.abs(rho1.imag) <= 1e-12 * np.abs(rho1))
            amp_c = amp
            for vals_p, n_ulp in perturbed:
                amp_c = np.maximum(amp_c, _amplification(red, built.reduction(vals_p, as_complex=True), n_ulp))
            ok_pts &= TOL * amp_c <= VACUOUS
            tol_c = TOL * np.maximum(size, 1e-300) * amp_c
            ratio_c = np.where(ok_pts, diff / tol_c, 0.0)
        bad = ok_pts & ~(diff <= tol_c)
        if bad.any():
            k = _worst(bad, ratio_c)
            return violation(
                "breit_wigner_reduction", nontrivial, labels, n_bad=int(bad.sum()), n_asserted=int(ok_pts.sum()),
                got=repr(complex(lhs_c[k])), want=repr(complex(bw[k])), index=k, point=_point(vals, k),
            )
        labels.append("reduction_checked")
        worst_red = float(ratio_c.max())
    return ok(
        nontrivial, labels, points=batch, asserted=int(asserted.sum()), no_reference=int((~usable).sum()),
        vacuous=int((usable & ~asserted).sum()), worst_residual_over_tol=float(ratio.max()),
        worst_reduction_over_tol=worst_red, max_cond=float(np.max(np.where(asserted, cond, 1.0))),
    )
