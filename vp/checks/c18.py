"""C18 — PoolSum denotes the finite sum over its index pools.

Generator: summands from a small grammar (index symbols, free symbols, small rationals,
``+ * **``, an uninterpreted ``f(.,.)``, an ``Indexed`` amplitude-like symbol ``A[.,.]``, an
``@unevaluated`` class with a non-SymPy attribute ``T(.,.)`` (polynomial unfolding),
nested ``PoolSum`` incl. an inner sum re-using an outer index name or binding a name that
is free elsewhere), 0-4 indices with pools of 1-3 rationals (singletons and duplicates
included) and a substitution map.

Oracle: a reference model that never calls ``PoolSum``: ``itertools.product`` over the
pools with Python-level environments (so shadowing is lexical by construction).
"""

from __future__ import annotations

import itertools

import sympy as sp
from hypothesis import strategies as st

from vp.harness import Result, ok, under_test, violation

PROPERTY = "C18"
RULE = (
    "Hypothesis draws (summand tree, index pools, substitution map, subs|xreplace, whether the key symbols of the map "
    "are the cached objects or equal-but-distinct ones created after sympy's cache was cleared, container kind of "
    "the top-level pools: list|tuple|generator|map|reversed|dict keys|iterator). "
    "Non-trivial: (>=2 indices or a nested PoolSum) and the summand depends on >=1 of its"
    " indices. Distinct = distinct descriptor hash."
)
ASSUMPTIONS = [
    "pool values are rationals (as the property's quantifier says); symbolic pool values are not generated",
    "substitution values are free of every bound name of the case (capture avoidance is not claimed by the statement)",
    "equality is structural after expand(); otherwise exact rational evaluation with f and A[..] replaced by fixed polynomials (no floating point)",
]
BUDGET = {
    "quick": {"examples": 16000, "shards": 16, "cap_s": 150, "shrink_calls": 400, "shrink_s": 60},
    "thorough": {"examples": 400000, "shards": 16, "cap_s": 1500, "shrink_calls": 2000, "shrink_s": 240},
}

INDEX_NAMES = ["i", "j", "k", "l"]
FREE_NAMES = ["x", "y", "z"]
FRESH_NAMES = ["u", "v"]
NUMS = ["0", "1", "-1", "2", "3", "1/2", "-1/2", "3/2", "-2"]

f = sp.Function("f")
A = sp.IndexedBase("A")


# ----------------------------------------------------------------------- strategies
def _pool():
    return st.lists(st.sampled_from(NUMS), min_size=1, max_size=3)


def _indices(names, min_size=0, max_size=4):
    return st.lists(st.sampled_from(names), min_size=min_size, max_size=max_size, unique=True).flatmap(
        lambda ns: st.tuples(*[st.tuples(st.just(n), _pool()) for n in ns]).map(
            lambda t: [[n, p] for n, p in t]
        )
    )


def _expr():
    leaves = st.one_of(
        st.sampled_from(INDEX_NAMES).map(lambda n: ["sym", n]),
        st.sampled_from(INDEX_NAMES).map(lambda n: ["sym", n]),
        st.sampled_from(FREE_NAMES).map(lambda n: ["sym", n]),
        st.sampled_from(NUMS).map(lambda n: ["num", n]),
    )

    def extend(children):
        return st.one_of(
            st.tuples(st.just("add"), children, children).map(list),
            st.tuples(st.just("mul"), children, children).map(list),
            st.tuples(st.just("pow"), children, st.integers(0, 3)).map(list),
            st.tuples(st.just("f"), children, children).map(list),
            st.tuples(st.just("A"), children, children).map(list),
            st.tuples(st.just("T"), children, children).map(list),
            st.tuples(
                st.just("sum"), children, _indices([*INDEX_NAMES, "x"], 1, 2)
            ).map(list),
        )

    return st.recursive(leaves, extend, max_leaves=8)


def _subs_value():
    leaf = st.one_of(
        st.sampled_from(NUMS).map(lambda n: ["num", n]),
        st.sampled_from(FRESH_NAMES + FREE_NAMES).map(lambda n: ["sym", n]),
    )
    return st.one_of(
        leaf,
        st.tuples(st.just("add"), leaf, leaf).map(list),
        st.tuples(st.just("mul"), leaf, leaf).map(list),
    )


def strategy(tier):
    return st.fixed_dictionaries({
        "expr": _expr(),
        "indices": _indices(INDEX_NAMES, 0, 4),
        "subs": st.lists(
            st.tuples(st.sampled_from(FREE_NAMES + INDEX_NAMES), _subs_value()).map(list),
            max_size=3,
            unique_by=lambda kv: kv[0],
        ),
        "mode": st.sampled_from(["subs", "xreplace"]),
        # the key symbols of the substitution are equal to, but not the same objects as, the symbols inside the
        # sum (SymPy's symbol cache is an LRU cache that large models overflow; here it is cleared explicitly)
        "fresh_key_objects": st.booleans(),
        # how the top-level pools are handed over: the signature says `Iterable`, so one-shot iterables are legal
        "pool_kind": st.sampled_from(POOL_KINDS),
    })


POOL_KINDS = ["list", "list", "tuple", "generator", "map", "reversed", "dict_keys", "iter"]


def _as_container(values, kind):
    values = list(values)
    if kind == "tuple":
        return tuple(values)
    if kind == "generator":
        return (v for v in values)
    if kind == "map":
        return map(lambda v: v, values)  # noqa: C417
    if kind == "reversed":
        return reversed(values[::-1])
    if kind == "dict_keys" and len(set(values)) == len(values):
        return dict.fromkeys(values).keys()
    if kind == "iter":
        return iter(values)
    return values


def fixed_cases(tier):
    return [
        *[{"expr": ["f", ["sym", "i"], ["sym", "j"]], "indices": [["i", ["1", "2"]], ["j", ["0", "1", "1"]]],
           "subs": [], "mode": "subs", "pool_kind": kind} for kind in POOL_KINDS[1:]],
        # witnesses of F18 (subs on a bound index / cleanup of an unused multi-valued index)
        {"expr": ["f", ["sym", "i"], ["sym", "j"]], "indices": [["i", ["1", "2"]], ["j", ["0", "1"]]],
         "subs": [["i", ["num", "3"]]], "mode": "subs"},
        {"expr": ["f", ["sym", "i"], ["sym", "j"]], "indices": [["i", ["1", "2"]], ["j", ["0", "1"]]],
         "subs": [["i", ["num", "3"]]], "mode": "xreplace"},
        {"expr": ["sym", "x"], "indices": [["i", ["0", "1", "2"]]], "subs": [], "mode": "subs"},
        {"expr": ["f", ["sym", "i"], ["sym", "j"]], "indices": [["i", ["1", "2"]], ["j", ["0", "1"]]],
         "subs": [["i", ["num", "3"]]], "mode": "subs", "fresh_key_objects": True},
        # shadowing with a literal equal to the outer value
        {"expr": ["sum", ["add", ["f", ["sym", "i"], ["sym", "i"]], ["num", "3"]], [["i", ["1", "2"]]]],
         "indices": [["i", ["3"]]], "subs": [], "mode": "subs"},
    ]


# ----------------------------------------------------------------------- building
def _sym(name):
    return sp.Symbol(name)


def _num(txt):
    return sp.Rational(txt)


RefSum = sp.Function("RefSum")


def _tagged():
    """A class defined with the library's @unevaluated decorator that has a non-SymPy attribute (like the library's
    EnergyDependentWidth) and unfolds to a polynomial, so that values stay exact rationals."""
    from vp.gen.custom_classes import TaggedPolynomial  # noqa: PLC0415

    return TaggedPolynomial


def _ref_ctor(body, *indices):
    return RefSum(body, *[sp.Tuple(s, sp.Tuple(*vals)) for s, vals in indices])


def build(tree, ctor=None):
    """Descriptor -> sympy expression; sums are built with `ctor` (default: PoolSum)."""
    if ctor is None:
        from ampform.sympy import PoolSum as ctor  # noqa: PLC0415, N813

    op = tree[0]
    if op == "sym":
        return _sym(tree[1])
    if op == "num":
        return _num(tree[1])
    if op == "add":
        return build(tree[1], ctor) + build(tree[2], ctor)
    if op == "mul":
        return build(tree[1], ctor) * build(tree[2], ctor)
    if op == "pow":
        return build(tree[1], ctor) ** tree[2]
    if op == "f":
        return f(build(tree[1], ctor), build(tree[2], ctor))
    if op == "A":
        return A[build(tree[1], ctor), build(tree[2], ctor)]
    if op == "T":
        return _tagged()(build(tree[1], ctor), build(tree[2], ctor), tag="ab")
    if op == "sum":
        return ctor(build(tree[1], ctor), *[(_sym(n), [_num(v) for v in p]) for n, p in tree[2]])
    raise ValueError(op)


def ref_free_symbols(expr) -> set:
    """Free symbols with lexical scoping, computed on the PoolSum-free mirror expression
    (sympy's automatic simplification, e.g. ``i**0 -> 1``, is the same in both)."""
    if isinstance(expr, sp.Symbol):
        return {expr}
    if expr.func == RefSum:
        bound = {t[0] for t in expr.args[1:]}
        return ref_free_symbols(expr.args[0]) - bound
    out = set()
    for arg in expr.args:
        out |= ref_free_symbols(arg)
    return out


def reference(tree, env):
    """Value of the tree with bound names looked up in `env` (lexical scoping)."""
    op = tree[0]
    if op == "sym":
        return env.get(tree[1], _sym(tree[1]))
    if op == "num":
        return _num(tree[1])
    if op == "add":
        return reference(tree[1], env) + reference(tree[2], env)
    if op == "mul":
        return reference(tree[1], env) * reference(tree[2], env)
    if op == "pow":
        return reference(tree[1], env) ** tree[2]
    if op == "f":
        return f(reference(tree[1], env), reference(tree[2], env))
    if op == "A":
        return A[reference(tree[1], env), reference(tree[2], env)]
    if op == "T":  # constructed from the values (no substitution involved)
        return _tagged()(reference(tree[1], env), reference(tree[2], env), tag="ab")
    if op == "sum":
        return ref_sum(tree[1], tree[2], env)
    raise ValueError(op)


def ref_sum(body, indices, env):
    names = [n for n, _ in indices]
    total = sp.S.Zero
    for combo in itertools.product(*[[_num(v) for v in p] for _, p in indices]):
        total += reference(body, {**env, **dict(zip(names, combo))})
    return total


def free_names(tree, bound=frozenset()):
    op = tree[0]
    if op == "sym":
        return set() if tree[1] in bound else {tree[1]}
    if op == "num":
        return set()
    if op == "pow":
        return free_names(tree[1], bound)
    if op == "sum":
        return free_names(tree[1], bound | {n for n, _ in tree[2]})
    return free_names(tree[1], bound) | free_names(tree[2], bound)


def bound_names(tree):
    op = tree[0]
    if op in {"sym", "num"}:
        return set()
    if op == "pow":
        return bound_names(tree[1])
    if op == "sum":
        return {n for n, _ in tree[2]} | bound_names(tree[1])
    return bound_names(tree[1]) | bound_names(tree[2])


def has_nested(tree):
    op = tree[0]
    if op in {"sym", "num"}:
        return False
    if op == "sum":
        return True
    if op == "pow":
        return has_nested(tree[1])
    return has_nested(tree[1]) or has_nested(tree[2])


# ----------------------------------------------------------------------- equality
_POINT = {
    "x": sp.Rational(2, 3), "y": sp.Rational(5, 7), "z": sp.Rational(-3, 5),
    "u": sp.Rational(7, 4), "v": sp.Rational(-11, 9),
    "i": sp.Rational(13, 6), "j": sp.Rational(-17, 8), "k": sp.Rational(19, 10), "l": sp.Rational(-23, 12),
}


def _numeric(expr):
    if expr.has(_tagged()):
        # (not `replace`: it rebuilds nodes with `func(*args)`, which drops non-SymPy attributes)
        expr = expr.doit()
    expr = expr.replace(lambda e: isinstance(e, sp.Indexed), lambda e: 2 * e.indices[0] - e.indices[1] ** 2 + 5)
    expr = expr.replace(f, lambda a, b: 3 * a + b * b + a * b + 1)
    expr = expr.xreplace({sp.Symbol(n): v for n, v in _POINT.items()})
    return sp.nsimplify(sp.expand(expr))


def same(a, b):
    """(equal?, how)"""
    if a == b:
        return True, "structural"
    try:
        if sp.expand(a - b) == 0:
            return True, "expand"
    except Exception:  # noqa: BLE001
        pass
    na, nb = _numeric(a), _numeric(b)
    if na.free_symbols or nb.free_symbols or na.has(sp.Function) or nb.has(sp.Function):
        return False, "unevaluated"
    return bool(na == nb), "exact-rational"


# ----------------------------------------------------------------------- the case
def run_case(desc) -> Result:
    from ampform.sympy import PoolSum  # noqa: PLC0415

    body, indices = desc["expr"], desc["indices"]
    top = ["sum", body, indices]
    labels = [f"n_indices={len(indices)}"]
    nested = has_nested(body)
    if nested:
        labels.append("nested")
    all_bound = bound_names(top)
    inner_bound = bound_names(body)
    idx_names = {n for n, _ in indices}
    if inner_bound & idx_names:
        labels.append("shadowing")
    if any(len(p) == 1 for _, p in indices):
        labels.append("singleton_pool")
    if any(len(set(p)) < len(p) for _, p in indices):
        labels.append("duplicate_pool_values")
    body_free = {str(x) for x in ref_free_symbols(build(body, _ref_ctor))}
    depends = bool(body_free & idx_names)
    nontrivial = (len(indices) >= 2 or nested) and depends

    pool_kind = desc.get("pool_kind", "list")
    labels.append(f"pool_kind={pool_kind}")
    ps = under_test(
        "PoolSum()", PoolSum, build(body), *[(_sym(n), _as_container([_num(v) for v in p], pool_kind)) for n, p in indices]
    )
    ref = ref_sum(body, indices, {})

    # 1. evaluation
    val = under_test("doit", ps.doit)
    eq, how = same(val, ref)
    labels.append(f"eq:{how}")
    if not eq:
        return violation("doit_differs_from_reference", nontrivial, labels, got=str(val), want=str(ref))
    val2 = under_test("evaluate", lambda: ps.evaluate().doit())
    if not same(val2, ref)[0]:
        return violation("evaluate_differs_from_reference", nontrivial, labels, got=str(val2), want=str(ref))

    # 2. free symbols
    want_free = ref_free_symbols(build(top, _ref_ctor))
    got_free = {s for s in ps.free_symbols if isinstance(s, sp.Symbol)}
    if got_free != want_free:
        return violation(
            "free_symbols", nontrivial, labels,
            got=sorted(map(str, got_free)), want=sorted(map(str, want_free)),
        )

    # 3. cleanup
    cleaned = under_test("cleanup", ps.cleanup)
    cval = under_test("cleanup.doit", cleaned.doit)
    pending = None  # the cleanup finding must not hide what lies behind it
    if not same(cval, ref)[0]:
        factor = 1
        for n, p in indices:
            if n not in body_free:
                factor *= len(p)
        explained = factor > 1 and same(cval * factor, ref)[0]
        pending = violation(
            "cleanup_changes_value", nontrivial, labels,
            explained_by_dropped_unused_multivalued_index=bool(explained),
            factor=factor, got=str(cval), want=str(ref),
        )
        if not explained:
            return pending

    # 4./5. substitution
    mode = desc["mode"]
    pairs = []
    for name, vtree in desc["subs"]:
        value = build(vtree)
        if {str(s) for s in value.free_symbols} & all_bound:
            continue  # capture: outside the statement
        pairs.append((name, value))
    keys = {n for n, _ in pairs}
    if mode == "subs":
        # sequential substitution: keep values free of the keys so that order is irrelevant
        pairs = [(n, v) for n, v in pairs if not ({str(s) for s in v.free_symbols} & keys)]
    if desc.get("fresh_key_objects") and pairs:
        from sympy.core.cache import clear_cache  # noqa: PLC0415

        clear_cache()
        labels.append("key_symbols_equal_but_not_identical")
    mapping = {_sym(n): v for n, v in pairs}
    if mapping:
        hits_bound = bool({n for n, _ in pairs} & all_bound)
        hits_free = bool({n for n, _ in pairs} & free_names(top))
        if hits_bound:
            labels.append("subs_key_is_bound_index")
        if hits_free:
            labels.append("subs_hits_free_symbol")
        if mode == "subs":
            replaced = under_test("subs", ps.subs, mapping)
        else:
            replaced = under_test("xreplace", ps.xreplace, mapping)
        # expected: only *free* occurrences are replaced
        env = {n: v for n, v in pairs}
        want = ref_sum_free(body, indices, env)
        got = under_test("subs.doit", replaced.doit)
        if not same(got, want)[0]:
            return violation(
                f"{mode}_does_not_commute", nontrivial, labels,
                key_is_bound_index=hits_bound, mapping={n: str(v) for n, v in pairs},
                got=str(got), want=str(want),
            )
        only_bound = {n for n, _ in pairs} <= (all_bound - free_names(top))
        if only_bound and replaced != ps:
            return violation(
                f"{mode}_on_bound_index_changes_object", nontrivial, labels,
                mapping={n: str(v) for n, v in pairs}, got=str(replaced), want=str(ps),
            )
    if pending is not None:
        return pending
    return ok(nontrivial, labels, value=str(ref)[:120])


def ref_sum_free(body, indices, env):
    """Reference value after replacing the *free* names of the sum by env (lexical)."""
    names = [n for n, _ in indices]
    outer = {k: v for k, v in env.items() if k not in names}
    total = sp.S.Zero
    for combo in itertools.product(*[[_num(v) for v in p] for _, p in indices]):
        total += reference(body, {**outer, **dict(zip(names, combo))})
    return total
