"""C05 — spin alignment never changes a single-topology intensity."""

from __future__ import annotations

from fractions import Fraction

import numpy as np
from hypothesis import strategies as st

from vp.gen.config import DEFAULT_CONFIG, formulate, prepare
from vp.gen.events import generate_events
from vp.gen.reactions import reaction_strategy, summarize
from vp.harness import Result, ok, skip, under_test, violation
from vp.numeric import ModelEvaluator
from vp.ref.spin import spin_range

PROPERTY = "C05"
RULE = (
    "Two families. (a) 'model': Hypothesis draws a single-topology synthetic reaction (3-body: all three topologies and"
    " relabelings; 2- and 4-body for axis-angle) with complete helicity sets, final spins 0..3/2 (thorough 5/2), masses"
    " incl. 0 for spin 1/2, an event seed (8 events) and a coupling seed; the unaligned, axis-angle and DPD(1,2,3) models"
    " are formulated and evaluated on the same events with the same couplings. (b) 'spin_range': create_spin_range(s,"
    " no_zero_spin) for every s in {0, 1/2, ..., 5} (finite, enumerated as fixed cases). Non-trivial (model): a spinful"
    " final state below a resonance. Distinct = descriptor hash."
)
ASSUMPTIONS = [
    "equality is asserted only when every outer state occurs with all 2s+1 projections (the statement's premise);"
    " massless particles with spin >= 1 are therefore not generated",
    "a massless particle below a resonance has no rest frame, so the axis-angle Wigner rotation is undefined there: nan"
    " intensities of that configuration are labelled undefined_by_construction, formulation success is still asserted",
    "relative tolerance 1e-8 (1e-6 for DPD with a massless particle); events where an aligned intensity is nan because"
    " an arccos argument rounds to 1+2e-16 (massless DPD zeta angles) are labelled and not asserted",
]
BUDGET = {
    "quick": {"examples": 192, "shards": 16, "cap_s": 150, "shrink_calls": 20, "shrink_s": 120, "case_timeout_s": 50},
    "thorough": {"examples": 2400, "shards": 16, "cap_s": 2400, "shrink_calls": 100, "shrink_s": 300, "case_timeout_s": 300},
}


def strategy(tier):
    thorough = tier == "thorough"
    rs = reaction_strategy(
        n_final=(3, 3, 3, 3, 2, 4) if thorough else (3, 3, 3, 3, 3, 2), max_topos=1, complete_helicities=True,
        allow_identical=False, formalisms=("helicity", "helicity", "canonical-helicity"),
        spin2_max=5 if thorough else 2, spin_k_max=2 if thorough else 1, max_transitions=96 if thorough else 18,
    )
    generic = st.fixed_dictionaries({
        "family": st.just("model"),
        "spin1_budget": st.just(2 if thorough else 1),
        "alignment": st.sampled_from(["axisangle", "axisangle", "dpd1", "dpd2", "dpd3"]),
        "reaction": rs,
        "event_seed": st.integers(0, 2**31 - 1),
        "coupling_seed": st.integers(0, 2**31 - 1),
    })

    # targeted family: a *massless* spin-1/2 particle next to a resonance that decays to a *massive* spin-1 particle
    # (tau -> nu a1 -> nu rho pi like).  The helicity-rotation sums of the massive particle must keep projection 0
    # although a massless particle sits in its rotation chain (and the massless one must drop nothing, being
    # spin 1/2); in the generic family mass 0 and spin 1 rarely meet in one reaction.
    def targeted(args):
        pos, swap, k_res, p_res, k_init, third_s2, es, cs = args
        others = [i for i in range(3) if i != pos]
        if swap:
            others.reverse()
        finals = [None, None, None]
        finals[pos] = {"s2": 1, "P": 1, "m": 0.0, "latex": 0}  # the massless spectator
        finals[others[0]] = {"s2": 2, "P": -1, "m": 0.775, "latex": 0}
        finals[others[1]] = {"s2": third_s2, "P": -1, "m": 0.135, "latex": 0}
        r = {
            "formalism": "helicity", "n": 3, "mu": 0.3, "final": finals, "ident": [],
            "initial": {"k": k_init, "P": 1, "eps": 0.3, "width": 0.0},
            # base topology 0(12): perm[0] is the spectator
            "topos": [{"idx": 0, "perm": [pos, *sorted(others)], "res": [{"k": k_res, "P": p_res, "eps": 0.1, "width": 0.1}],
                       "pc": [False, False]}],
            "hel_init": 0, "hel_final": [0, 0, 0], "max_transitions": 96,
        }
        return {"family": "model", "spin1_budget": 1, "alignment": "axisangle", "reaction": r, "event_seed": es,
                "coupling_seed": cs, "targeted": "massless_next_to_massive_spin1"}

    target = st.tuples(
        st.integers(0, 2), st.booleans(), st.integers(1, 2 if thorough else 1), st.sampled_from([1, -1]),
        st.integers(0, 1 if thorough else 0), st.sampled_from([0, 0, 1] if thorough else [0]), st.integers(0, 2**31 - 1),
        st.integers(0, 2**31 - 1),
    ).map(targeted)
    return st.integers(0, 7).flatmap(lambda w: target if w == 0 else generic)


def fixed_cases(tier):
    cases = [{"family": "spin_range", "s2": s2, "no_zero_spin": nz} for s2 in range(11) for nz in (False, True)]

    def fin(s2, m):
        return {"s2": s2, "P": 1, "m": m, "latex": 0}

    # witness of F5: massless spin-1/2 final state with axis-angle alignment
    cases.append({
        "family": "model",
        "reaction": {
            "formalism": "helicity", "n": 3, "mu": 0.3, "final": [fin(1, 0.0), fin(1, 0.938), fin(0, 0.135)], "ident": [],
            "initial": {"k": 0, "P": 1, "eps": 0.1, "width": 0.0},
            "topos": [{"idx": 0, "perm": [2, 0, 1], "res": [{"k": 0, "P": 1, "eps": 0.1, "width": 0.1}], "pc": [False, False]}],
            "hel_init": 0, "hel_final": [0, 0, 0], "max_transitions": 64,
        },
        "event_seed": 3, "coupling_seed": 4,
    })
    # five-body topologies (all five, a spin-1/2 particle at every position): formulation must succeed with both
    # alignments that exist for five bodies; the intensity is not evaluated there (cost)
    for idx in range(5):
        for pos in range(5):
            cases.append({
                "family": "model", "formulate_only": True, "alignment": "axisangle", "spin1_budget": 1,
                "reaction": {
                    "formalism": "helicity", "n": 5, "mu": 0.3,
                    "final": [fin(1 if i == pos else 0, [0.938, 0.135, 0.494, 0.135, 0.548][i]) for i in range(5)], "ident": [],
                    "initial": {"k": 0, "P": 1, "eps": 0.3, "width": 0.0},
                    "topos": [{"idx": idx, "perm": [0, 1, 2, 3, 4], "res": [{"k": 0, "P": 1, "eps": 0.1, "width": 0.1}] * 3,
                               "pc": [False] * 4}],
                    "hel_init": 0, "hel_final": [0] * 5, "max_transitions": 96,
                },
                "event_seed": 1, "coupling_seed": 2,
            })
    return cases


def _no_massless_spin_ge1(rdesc):
    r = dict(rdesc)
    r["final"] = [dict(fd, m=(0.135 if fd["m"] == 0.0 and fd["s2"] >= 2 else fd["m"])) for fd in rdesc["final"]]
    r["topos"] = r["topos"][:1]
    return r


def run_spin_range(desc) -> Result:
    from ampform.helicity.align._spin import create_spin_range  # noqa: PLC0415

    s = Fraction(desc["s2"], 2)
    got = under_test("create_spin_range", create_spin_range, float(s), desc["no_zero_spin"])
    want = [float(x) for x in spin_range(s)]
    if desc["no_zero_spin"] and len(want) > 1:
        want = [x for x in want if x != 0.0]
    labels = ["spin_range", f"no_zero_spin={desc['no_zero_spin']}"]
    if list(got) != want or any(type(x) is not float for x in got):
        return violation("spin_range", True, labels, spin=str(s), got=list(got), want=want)
    return ok(desc["s2"] >= 1, labels, spin=str(s), values=want)


def run_case(desc) -> Result:  # noqa: C901, PLR0912, PLR0914
    if desc["family"] == "spin_range":
        return run_spin_range(desc)
    rdesc = _no_massless_spin_ge1(desc["reaction"])
    # all alignments are formulated for the same reaction: apply the axis-angle cost clamp first
    from vp.gen.config import effective_reaction_desc  # noqa: PLC0415

    rdesc = effective_reaction_desc(
        rdesc, dict(DEFAULT_CONFIG, alignment="axisangle", axisangle_spin1_budget=desc.get("spin1_budget", 2))
    )
    n = rdesc["n"]
    choice = desc.get("alignment", "all")
    if choice == "all":
        alignments = ["none", "axisangle"] + (["dpd1", "dpd2", "dpd3"] if n == 3 else [])
    else:  # one aligned model per case keeps a case affordable
        alignments = ["none", choice if (n == 3 or not choice.startswith("dpd")) else "axisangle"]
    labels_al = alignments[1:]
    models = {}
    prepared0 = None
    labels = [f"n={n}", rdesc["formalism"], *[f"align={a}" for a in labels_al]]
    if desc.get("targeted"):
        labels.append(f"targeted:{desc['targeted']}")
    for al in alignments:
        prepared = prepare(rdesc, dict(DEFAULT_CONFIG, alignment=al, axisangle_spin1_budget=desc.get("spin1_budget", 2)))
        if prepared is None:
            return skip("no_transitions")
        if prepared0 is None:
            prepared0 = prepared
        # "formulating an aligned model succeeds for every final-state spin"
        models[al] = (prepared, under_test(f"formulate[{al[:3]}]", prepared.builder.formulate))
    built = prepared0.built
    info = summarize(built)
    if desc.get("formulate_only"):
        # five-body chains: formulating must succeed (asserted above); evaluating the aligned intensity costs minutes
        return ok(False, [*labels, "formulation_only:five_body"], n_transitions=info["n_transitions"])
    t0 = built.reaction.transitions[0]
    finals = sorted(t0.final_states)
    final_spins = [t0.states[i].particle.spin for i in finals]
    masses = {i: t0.states[i].particle.mass for i in finals}
    if any(m == 0.0 for m in masses.values()):
        labels.append("massless")
    if any(s.denominator == 2 for s in final_spins):
        labels.append("half_integer_final")
    # premise: complete helicity sets
    for i in [*t0.initial_states, *finals]:
        present = {t.states[i].spin_projection for t in built.reaction.transitions}
        if present != set(spin_range(t0.states[i].particle.spin)):
            return ok(False, [*labels, "premise_not_met:formulation_only"], n_transitions=info["n_transitions"])
    topo = built.topologies[0]
    below_resonance = [i for i in finals if topo.edges[i].originating_node_id != topo.edges[next(iter(topo.incoming_edge_ids))].ending_node_id]
    spinful_below = any(t0.states[i].particle.spin > 0 for i in below_resonance)
    massless_below = any(masses[i] == 0.0 and t0.states[i].particle.spin > 0 for i in below_resonance)
    nontrivial = spinful_below
    (init_id,) = t0.topology.incoming_edge_ids
    total = t0.states[init_id].particle.mass
    momenta = generate_events(topo, masses, total, 8, desc["event_seed"], edge=0.05)

    evaluators = {}
    for al, (prepared, model) in models.items():
        evaluators[al] = under_test(f"lambdify[{al[:3]}]", ModelEvaluator, model, prepared.id_offset)
    # the same value for equally named parameters in all models (a model may lack parameters
    # whose terms vanish identically after unfolding)
    names = sorted({s.name for ev in evaluators.values() for s in ev.parameters})
    rng = np.random.default_rng(desc["coupling_seed"])
    by_name = {}
    for name in names:
        z = complex(rng.uniform(-1, 1), rng.uniform(-1, 1))
        by_name[name] = z
    values = {}
    for al, ev in evaluators.items():
        params = {
            s: (by_name[s.name] if s.name.startswith(("C_", "H_")) else ev.defaults[s]) for s in ev.parameters
        }
        values[al] = under_test(f"evaluate[{al[:3]}]", ev, momenta, params)
    ref = values["none"]
    if not np.all(np.isfinite(ref)):
        return violation("unaligned_intensity_not_finite", nontrivial, labels, intensity=[complex(x) for x in ref[:3]])
    worst = 0.0
    for al in alignments[1:]:
        got = values[al]
        finite = np.isfinite(got)
        if not np.all(finite):
            if al == "axisangle" and massless_below:
                if "undefined_by_construction:axisangle_massless" not in labels:
                    labels.append("undefined_by_construction:axisangle_massless")
            elif al.startswith("dpd") and "massless" in labels:
                if "nan_from_rounding:dpd_massless" not in labels:
                    labels.append("nan_from_rounding:dpd_massless")
            else:
                return violation(
                    "aligned_intensity_not_finite", nontrivial, labels, alignment=al, n_bad=int(np.sum(~finite)),
                    intensity=[complex(x) for x in got[:3]],
                )
        if not np.any(finite):
            continue
        tol = 1e-6 if (al.startswith("dpd") and "massless" in labels) else 1e-8
        rel = np.abs(got[finite] - ref[finite]) / np.maximum(np.abs(ref[finite]), 1e-300)
        worst = max(worst, float(np.max(rel)))
        if np.any(rel > tol):
            return violation(
                "alignment_changes_single_topology_intensity", nontrivial, labels, alignment=al,
                max_rel_diff=float(np.max(rel)), unaligned=[complex(x) for x in ref[:3]], aligned=[complex(x) for x in got[:3]],
            )
    return ok(nontrivial, labels, max_rel_diff=worst, n_transitions=info["n_transitions"], final_spins=[str(s) for s in final_spins])
