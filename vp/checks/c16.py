"""C16 — cached unfolding equals ``doit()`` whatever the cache has seen.

Stateful check (Hypothesis ``RuleBasedStateMachine``) of ``ampform.sympy.perform_cached_doit``
on a fresh temporary cache directory per history.

Rules (every executed operation is appended to ``ops``; the list *is* the replayable case)

``["call", i]``
    ``perform_cached_doit(POOL[i], directory)``.
``["crash", i, k]``
    the same call, killed inside the write: the module-level name ``pickle`` of
    ``ampform.sympy`` is replaced (once per process) by a thin proxy whose ``dump`` writes only
    the first *k* bytes of the real pickle stream to the file object it was given, flushes and
    raises a private ``BaseException``.  This leaves on disk exactly what a kill at byte *k*
    leaves, for whatever file protocol the implementation uses (final file or temporary file
    that is renamed afterwards).  ``0 <= k < 10000`` counts from the start (clipped to the
    stream length), ``k < 0`` from the end (``-1`` = the complete stream, i.e. killed between
    the last byte and whatever comes next, e.g. the rename), ``k = 10000 + p`` is p/1000 of the
    stream length.  Every prefix length of every stream can be drawn (streams are 150-1110 bytes).
``["garbage", "key"|"existing", t, kind, payload]``
    overwrite the cache file that a call for ``POOL[t]`` would read (name via
    ``ampform.sympy._cache.get_readable_hash``) or the t-th existing ``*.pkl`` file with
    random bytes drawn by Hypothesis or with a *valid* pickle of something that is not an
    entry for the expression (an int, a bare expression, tuples of the wrong arity, a pair of
    non-expressions, a well-formed entry that belongs to another pool expression).
``["interleave", a, b, k]``
    thread A runs the call for ``POOL[a]`` with ``dump`` writing *k* bytes and then parking on
    an event, the call for ``POOL[b]`` runs to completion, then A resumes and writes the rest.
    The harness owns the schedule; A is joined before the step ends.

Besides the generated histories, `fixed_cases` holds witness histories of the original defect
and *sweeps*: one short history per cut position k = 0..len(stream) ("a crash after every
prefix of the bytes written"), for crash (every pool expression) and for interleave (every
ordered pair of colliding expressions, and a == b).

After the last rule the history is closed by two rounds of ``call`` for every pool expression
that was touched, and every file left in the directory is opened with ``pickle.load`` (files
that do not load must have been ignored by those calls; their number is only a label).

Oracle: every call returns an object ``==`` to ``POOL[i].doit()`` computed directly once per
process, and never raises.

The hash-seed modes (``PYTHONHASHSEED`` = 0, 7, unset) are realised per *shard process*
(`shard_env`), because the seed must be fixed before the interpreter starts; a descriptor that
is replayed in a process of another mode is executed in a sub-process of the right mode.
"""

from __future__ import annotations

import json
import logging
import os
import pickle
import shutil
import subprocess
import sys
import tempfile
import threading
import time

from vp.harness import REPO_SRC, ROOT, Result, innermost_frame, ok, violation

PROPERTY = "C16"
RULE = (
    "Hypothesis RuleBasedStateMachine: one history = <=10 rules out of call(expr) | "
    "crash_during_write(expr, k bytes of the pickle stream) | garbage(file, random bytes or a "
    "valid pickle of a non-entry) | interleave(exprA parked after k bytes, exprB complete, A "
    "resumes) on a fresh directory, over 1-2 groups of a pool of 12 expressions (groups = "
    "expressions that print identically: EnergyDependentWidth x 3 phase-space factors, "
    "sqrt(x**2)/Abs(x)+1/BreakupMomentumSquared(x,1,2) with x plain | positive; 3 unrelated), "
    "closed by two rounds of call for every touched expression; shard k runs with "
    "PYTHONHASHSEED=0|7|unset for k%3=0|1|2. Non-trivial: two *different* pool expressions with "
    "the same cache key are both passed to perform_cached_doit by a rule, or a rule-level call "
    "follows a crash/garbage/parked-interleave on the same cache file (the closing rounds do "
    "not count). Distinct = distinct (mode, ops) hash. Fixed cases (always run, each in a "
    "process of its mode): witness histories of the original defect, and exhaustive sweeps over "
    "the cut position k = 0..len(stream) ('a crash after every prefix of the bytes written'): "
    "crash(a,k);call(a) for each of the 12 pool expressions, interleave(a,b,k);call(b);call(a) "
    "for every ordered pair of colliding expressions (unset seed) and for a==b in each mode; a "
    "sweep counts as one evaluation (detail: sweep_histories)."
)
ASSUMPTIONS = [
    "the oracle is POOL[i].doit() evaluated directly in the same process and compared with == "
    "(structural); the pool is chosen such that doit() is deterministic and cheap",
    "a kill inside the write is emulated at the pickle.dump call of ampform.sympy (module "
    "attribute `pickle` replaced by a proxy); an implementation that serialises with "
    "pickle.dumps + write would not be interrupted (label crash:no_write)",
    "garbage never is a well-formed entry (expr, wrong_value) for the expression that is read "
    "back: no implementation can detect that without recomputing; likewise no bit flips inside "
    "a valid entry",
    "valid pickles whose comparison with an expression raises or is ambiguous (e.g. a pair "
    "holding a numpy array) are generated only with VP_C16_ADVERSARIAL=1",
    "unset hash seed is realised as PYTHONHASHSEED=random (the harness cannot unset a "
    "variable per shard); ampform treats every non-digit value like an unset variable",
    "interleavings are the ones the harness schedules (A parked inside dump | B complete | A "
    "resumes); the multi-process stress of the thorough tier is weak evidence (label "
    "stress:weak_evidence): silence there proves little",
    "with PYTHONHASHSEED=random the pickle byte streams (set ordering) may differ between "
    "processes, so the byte at offset k of a replayed crash may differ",
    "the per-history cache directories live on /dev/shm when it is writable (metadata "
    "operations on the journalled disk cost 2-3 ms each), else under /verif/.work; the shard "
    "process limits its address space to 4 GiB so that a corrupt stream that makes pickle.load "
    "allocate without bound ends as MemoryError instead of exhausting the shared machine",
]
BUDGET = {
    "quick": {"examples": 480, "shards": 16, "cap_s": 150, "shrink_calls": 150, "shrink_s": 45, "steps": 11},
    "thorough": {"examples": 48000, "shards": 16, "cap_s": 1200, "shrink_calls": 600, "shrink_s": 180, "steps": 13},
}

MODES = ("0", "7", "unset")


def shard_env(k, tier):
    """Hash-seed mode of shard k; "random" is what ampform (``.isdigit()``) treats as unset."""
    return {"PYTHONHASHSEED": {"0": "0", "7": "7", "unset": "random"}[MODES[k % 3]]}


def current_mode() -> str:
    value = os.environ.get("PYTHONHASHSEED", "")
    return value if value.isdigit() else "unset"


# ----------------------------------------------------------------------- the pool
GROUPS = [[0, 1, 2], [3, 4], [5, 6], [7, 8], [9], [10], [11]]
N_POOL = 12
POOL_NAMES = [
    "EDW[PhaseSpaceFactor]", "EDW[PhaseSpaceFactorAbs]", "EDW[PhaseSpaceFactorSWave]",
    "sqrt(x**2)", "sqrt(x**2)[x>0]", "Abs(x)+1", "Abs(x)+1[x>0]",
    "BreakupMomentumSquared(x,1,2)", "BreakupMomentumSquared(x,1,2)[x>0]",
    "Sum(i**2,(i,1,4))", "Derivative(x*sin(x),x)", "PoolSum(x**i,(i,(0,1,2)))",
]
GARBAGE_KINDS = [
    "bytes", "empty", "pickle_int", "pickle_expr", "pickle_tuple1", "pickle_tuple3",
    "pickle_pair_nonexpr", "pickle_pair_other",
]
ADVERSARIAL_KINDS = ["pickle_pair_ndarray"]

_STATE: dict = {}


class _Killed(BaseException):
    """The emulated kill -9 inside the write."""


class _Plan:
    def __init__(self, kind: str, k: int) -> None:
        self.kind = kind  # "kill" | "park"
        self.k = k
        self.written = None
        self.total = None
        self.parked = False
        self.progress = threading.Event()  # A is parked or has finished
        self.resume = threading.Event()


_PLANS: dict[int, _Plan] = {}
_DUMPS: dict[int, int] = {}  # thread id -> number of dump calls (a call that dumps is a miss)


PERMILLE = 10_000  # k = PERMILLE + p  means  p/1000 of the stream length


def _resolve_k(k: int, total: int) -> int:
    if k >= PERMILLE:
        return min(total, total * (k - PERMILLE) // 1000)
    if k >= 0:
        return min(k, total)
    return max(0, total + 1 + k)


class _PickleProxy:
    """Stands in for the module ``pickle`` inside ``ampform.sympy`` only."""

    def __init__(self, real) -> None:
        self._real = real

    def __getattr__(self, name):
        return getattr(self._real, name)

    def dump(self, obj, file, *args, **kwargs):
        ident = threading.get_ident()
        _DUMPS[ident] = _DUMPS.get(ident, 0) + 1
        plan = _PLANS.get(ident)
        if plan is None or plan.written is not None:
            return self._real.dump(obj, file, *args, **kwargs)
        data = self._real.dumps(obj, *args, **kwargs)
        cut = _resolve_k(plan.k, len(data))
        plan.written, plan.total = cut, len(data)
        file.write(data[:cut])
        file.flush()
        if plan.kind == "kill":
            raise _Killed
        plan.parked = True
        plan.progress.set()
        plan.resume.wait(120)
        file.write(data[cut:])
        return None


def _limit_address_space() -> None:
    """Protect the (shared) machine: unpickling a corrupt stream can allocate without bound
    (seen with spliced streams under a non-atomic-write mutant: > 25 GB in seconds).  With the
    limit this becomes a MemoryError inside ``pickle.load``, i.e. an ordinary exception."""
    if os.environ.get("VP_C16_NO_RLIMIT"):
        return
    try:
        import resource  # noqa: PLC0415

        want = 4 << 30
        soft, hard = resource.getrlimit(resource.RLIMIT_AS)
        if soft == resource.RLIM_INFINITY or soft > want:
            if hard != resource.RLIM_INFINITY:
                want = min(want, hard)
            resource.setrlimit(resource.RLIMIT_AS, (want, hard))
    except (ImportError, ValueError, OSError):
        pass


def _setup() -> dict:
    """Build pool, expected values and keys once per process; install the pickle proxy."""
    if _STATE:
        return _STATE
    if REPO_SRC not in sys.path:
        sys.path.insert(0, REPO_SRC)
    logging.getLogger("ampform").setLevel(logging.CRITICAL)
    _limit_address_space()
    import sympy as sp  # noqa: PLC0415

    import ampform.sympy as asp  # noqa: PLC0415
    from ampform.dynamics import EnergyDependentWidth  # noqa: PLC0415
    from ampform.dynamics.phasespace import (  # noqa: PLC0415
        BreakupMomentumSquared,
        PhaseSpaceFactor,
        PhaseSpaceFactorAbs,
        PhaseSpaceFactorSWave,
    )
    from ampform.sympy import PoolSum  # noqa: PLC0415
    from ampform.sympy._cache import get_readable_hash  # noqa: PLC0415

    s, m0, w0, m_a, m_b, d = sp.symbols("s m0 Gamma0 m_a m_b d", nonnegative=True)

    def edw(factor):
        return EnergyDependentWidth(
            s=s, mass0=m0, gamma0=w0, m_a=m_a, m_b=m_b,
            angular_momentum=1, meson_radius=d, phsp_factor=factor,
        )

    x, xp, i = sp.Symbol("x"), sp.Symbol("x", positive=True), sp.Symbol("i")
    half = sp.Rational(1, 2)
    pool = [
        edw(PhaseSpaceFactor), edw(PhaseSpaceFactorAbs), edw(PhaseSpaceFactorSWave),
        sp.Pow(x**2, half, evaluate=False), sp.Pow(xp**2, half, evaluate=False),
        sp.Abs(x, evaluate=False) + 1, sp.Abs(xp, evaluate=False) + 1,
        BreakupMomentumSquared(x, 1, 2), BreakupMomentumSquared(xp, 1, 2),
        sp.Sum(i**2, (i, 1, 4)), sp.Derivative(sp.sin(x) * x, x), PoolSum(x**i, (i, [0, 1, 2])),
    ]
    assert len(pool) == N_POOL
    expected = [e.doit() for e in pool]
    # the pool is only useful if group members print identically and unfold differently
    for group in GROUPS:
        for a in group:
            for b in group:
                if a < b:
                    assert str(pool[a]) == str(pool[b]), (a, b)
                    assert pool[a] != pool[b], (a, b)
                    assert expected[a] != expected[b], (a, b)
    keys = [get_readable_hash(e) for e in pool]
    if not isinstance(asp.pickle, _PickleProxy):
        asp.pickle = _PickleProxy(pickle)
    _STATE.update(
        pool=pool, expected=expected, keys=keys, call=asp.perform_cached_doit,
        mode=current_mode(),
    )
    return _STATE


def _workdir() -> str:
    """Parent of the per-history cache directories: a RAM file system if there is one (rename,
    unlink and rmdir cost 2-3 ms each on the journalled disk, ten per history), else .work."""
    override = os.environ.get("VP_C16_TMP")
    for cand in (override, "/dev/shm"):
        if cand and os.path.isdir(cand) and os.access(cand, os.W_OK | os.X_OK):
            return cand
    d = ROOT / ".work"
    try:
        d.mkdir(exist_ok=True)
        return str(d)
    except OSError:
        return tempfile.gettempdir()


# ----------------------------------------------------------------------- one history
class History:
    """Executes operations on one fresh directory and keeps the verdict."""

    def __init__(self) -> None:
        st_ = _setup()
        self.pool, self.expected, self.keys = st_["pool"], st_["expected"], st_["keys"]
        self.perform = st_["call"]
        self.mode = st_["mode"]
        self.dir = tempfile.mkdtemp(prefix="c16-", dir=_workdir())
        self.ops: list = []
        self.trace: list = []
        self.labels: set[str] = {f"hashseed={self.mode}"}
        self.bad: Result | None = None
        self.used: set[int] = set()
        self.invoked: set[int] = set()  # passed to perform_cached_doit by a rule
        self.faulted: set[str] = set()  # cache-file stems that saw a fault
        self.fault_before_call = False
        self.collision = False
        self.closing = False

    # ------------------------------------------------------------------ bookkeeping
    @property
    def nontrivial(self) -> bool:
        return self.collision or self.fault_before_call

    def _note_invocation(self, i: int) -> None:
        self.used.add(i)
        if self.closing:
            return
        if self.keys[i] in self.faulted:
            self.fault_before_call = True
        for j in self.invoked:
            if j != i and self.keys[j] == self.keys[i]:
                self.collision = True
        self.invoked.add(i)

    def _fail(self, kind: str, **detail) -> None:
        if self.bad is None:
            detail.update(mode=self.mode, step=len(self.ops), op=self.ops[-1] if self.ops else None)
            if self.closing:
                detail["in_closing_round"] = True
            self.bad = violation(kind, True, (), **detail)

    def _judge_value(self, i: int, got, who: str) -> None:
        want = self.expected[i]
        try:
            same = bool(got == want)
        except Exception as exc:  # noqa: BLE001
            same = False
            got = f"<comparison raised {type(exc).__name__}>"
        if same:
            return
        other = [
            POOL_NAMES[j] for j in range(N_POOL)
            if j != i and self.keys[j] == self.keys[i] and _safe_eq(got, self.expected[j])
        ]
        kind = "returns_result_of_other_expression" if other else "wrong_value"
        self._fail(
            kind, who=who, expr=POOL_NAMES[i], got=_safe_str(got), want=_safe_str(want),
            result_belongs_to=other,
        )

    def _judge_exception(self, i: int, exc: BaseException, who: str) -> None:
        self._fail(
            f"raises:{who}", expr=POOL_NAMES[i], exc_type=type(exc).__name__,
            frame=innermost_frame(exc), message=str(exc)[:200],
        )

    def _invoke(self, i: int, who: str):
        """perform_cached_doit in this thread; returns (hit?) and judges the outcome."""
        ident = threading.get_ident()
        before = _DUMPS.get(ident, 0)
        try:
            got = self.perform(self.pool[i], self.dir)
        except Exception as exc:  # noqa: BLE001
            self._judge_exception(i, exc, who)
            return None
        hit = _DUMPS.get(ident, 0) == before
        self._judge_value(i, got, who)
        return hit

    # ------------------------------------------------------------------ operations
    def apply(self, op) -> None:
        """Execute one descriptor operation (no-op once a violation is recorded)."""
        if self.bad is not None:
            return
        name = op[0]
        self.ops.append(list(op))
        self.labels.add(f"op:{name}")
        if name == "call":
            self._call(int(op[1]))
        elif name == "crash":
            self._crash(int(op[1]), int(op[2]))
        elif name == "garbage":
            self._garbage(str(op[1]), int(op[2]), str(op[3]), op[4])
        elif name == "interleave":
            self._interleave(int(op[1]), int(op[2]), int(op[3]))
        else:  # unknown operation in a hand-written descriptor
            self.ops.pop()

    def _call(self, i: int) -> None:
        self._note_invocation(i)
        hit = self._invoke(i, "call")
        if hit is not None:
            if not self.closing:
                self.labels.add("call:hit" if hit else "call:miss")
            self.trace.append(["call", i, "hit" if hit else "miss"])

    def _crash(self, i: int, k: int) -> None:
        self._note_invocation(i)
        ident = threading.get_ident()
        plan = _Plan("kill", k)
        _PLANS[ident] = plan
        try:
            got = self.perform(self.pool[i], self.dir)
        except _Killed:
            self.faulted.add(self.keys[i])
            where = "0" if plan.written == 0 else "full" if plan.written == plan.total else "mid"
            self.labels.add(f"crash:killed_at={where}")
            self.trace.append(["crash", i, plan.written, plan.total])
        except Exception as exc:  # noqa: BLE001
            self._judge_exception(i, exc, "crash")
        else:  # nothing was written through pickle.dump (cache hit), or the kill was swallowed
            self.labels.add("crash:no_write" if plan.written is None else "crash:kill_swallowed")
            self.trace.append(["crash", i, "no_write"])
            self._judge_value(i, got, "crash")
        finally:
            _PLANS.pop(ident, None)

    def _garbage(self, tkind: str, t: int, kind: str, payload) -> None:
        stem = None
        if tkind == "existing":
            existing = sorted(n[:-4] for n in os.listdir(self.dir) if n.endswith(".pkl"))
            if existing:
                stem = existing[t % len(existing)]
                self.labels.add("garbage:on_existing_file")
        if stem is None:
            t %= N_POOL
            self.used.add(t)
            stem = self.keys[t]
        content = self._garbage_bytes(kind, payload)
        with open(os.path.join(self.dir, stem + ".pkl"), "wb") as stream:
            stream.write(content)
        self.faulted.add(stem)
        self.labels.add(f"garbage:{kind}")
        self.trace.append(["garbage", stem[:12], kind, len(content)])

    def _garbage_bytes(self, kind: str, payload) -> bytes:
        e0, u0 = self.pool[10], self.expected[10]
        if kind == "bytes":
            try:
                return bytes.fromhex(str(payload))
            except ValueError:
                return b"\x00"
        if kind == "empty":
            return b""
        if kind == "pickle_int":
            return pickle.dumps(7)
        if kind == "pickle_expr":
            return pickle.dumps(u0)
        if kind == "pickle_tuple1":
            return pickle.dumps((e0,))
        if kind == "pickle_tuple3":
            return pickle.dumps((e0, u0, 0))
        if kind == "pickle_pair_nonexpr":
            return pickle.dumps(("Derivative(x*sin(x), x)", 5))
        if kind == "pickle_pair_other":
            o = int(payload) % N_POOL
            return pickle.dumps((self.pool[o], self.expected[o]))
        if kind == "pickle_pair_ndarray":
            import numpy as np  # noqa: PLC0415

            return pickle.dumps((np.array([1, 2]), 5))
        return b"?"

    def _interleave(self, a: int, b: int, k: int) -> None:
        self._note_invocation(a)
        plan = _Plan("park", k)
        box: dict = {}

        def run_a() -> None:
            ident = threading.get_ident()
            _PLANS[ident] = plan
            before = _DUMPS.get(ident, 0)
            try:
                box["value"] = self.perform(self.pool[a], self.dir)
                box["hit"] = _DUMPS.get(ident, 0) == before
            except Exception as exc:  # noqa: BLE001
                box["exc"] = exc
            finally:
                _PLANS.pop(ident, None)
                _DUMPS.pop(ident, None)
                plan.progress.set()

        thread = threading.Thread(target=run_a, name="c16-A", daemon=True)
        thread.start()
        plan.progress.wait(300)
        parked = plan.parked
        if parked:
            self.faulted.add(self.keys[a])
            self.labels.add("interleave:A_parked")
            if self.keys[a] == self.keys[b]:
                self.labels.add("interleave:same_key" if a == b else "interleave:colliding_key")
        else:
            self.labels.add("interleave:A_no_write")
        self._note_invocation(b)
        try:
            hit_b = self._invoke(b, "interleave.B")
        finally:
            plan.resume.set()
            thread.join(300)
        if thread.is_alive():
            self._fail("thread_stuck", expr=POOL_NAMES[a])
            return
        self.trace.append(["interleave", a, b, plan.written, plan.total, "B:hit" if hit_b else "B:miss"])
        if "exc" in box:
            self._judge_exception(a, box["exc"], "interleave.A")
        else:
            self._judge_value(a, box.get("value"), "interleave.A")

    # ------------------------------------------------------------------ closing
    def finish(self) -> Result:
        """Closing rounds, directory scan, verdict; removes the directory."""
        unreadable = tmp = total = 0
        try:
            if self.bad is None:
                self.closing = True
                self.ops.append(["close"])
                for _ in range(2):
                    for i in sorted(self.used):
                        if self.bad is None:
                            self._call(i)
                self.ops.pop()
                for name in sorted(os.listdir(self.dir)):
                    total += 1
                    tmp += not name.endswith(".pkl")
                    try:
                        with open(os.path.join(self.dir, name), "rb") as stream:
                            pickle.load(stream)  # noqa: S301
                    except Exception:  # noqa: BLE001
                        unreadable += 1
                if unreadable:
                    self.labels.add("leftover:unreadable_files_ignored")
                if tmp:
                    self.labels.add("leftover:temporary_files")
        finally:
            shutil.rmtree(self.dir, ignore_errors=True)
        if self.collision:
            self.labels.add("nontrivial:colliding_pair")
        if self.fault_before_call:
            self.labels.add("nontrivial:fault_before_call_on_same_key")
        elif self.faulted:
            self.labels.add("fault_seen_only_by_closing_round")
        labels = sorted(self.labels)
        if self.bad is not None:
            self.bad.labels = labels
            self.bad.nontrivial = True
            return self.bad
        return ok(self.nontrivial, labels, n_ops=len(self.ops), trace=self.trace[:40],
                  files_left=total, unreadable_left=unreadable)


def _safe_str(obj) -> str:
    """str() of whatever came out of a cache file (a corrupt object may fail to print)."""
    try:
        return str(obj)[:200]
    except Exception as exc:  # noqa: BLE001
        return f"<{type(obj).__name__} object whose str() raises {type(exc).__name__}>"


def _safe_eq(a, b) -> bool:
    try:
        return bool(a == b)
    except Exception:  # noqa: BLE001
        return False


# ----------------------------------------------------------------------- Hypothesis
def machine(tier, report, gate):
    from hypothesis import strategies as st  # noqa: PLC0415
    from hypothesis.stateful import RuleBasedStateMachine, initialize, rule  # noqa: PLC0415

    kinds = GARBAGE_KINDS + (ADVERSARIAL_KINDS if os.environ.get("VP_C16_ADVERSARIAL") else [])
    pick = st.integers(0, 5)
    cut = st.one_of(
        st.integers(0, 40), st.integers(-40, -1), st.integers(0, 400),
        st.integers(PERMILLE, PERMILLE + 1000),
    )

    class C16Machine(RuleBasedStateMachine):
        def __init__(self) -> None:
            super().__init__()
            self.active = bool(gate())
            self.focus = [0]
            self.h = History() if self.active else None

        def _expr(self, j: int) -> int:
            return self.focus[j % len(self.focus)]

        @initialize(groups=st.lists(st.integers(0, len(GROUPS) - 1), min_size=1, max_size=2, unique=True))
        def choose_groups(self, groups):
            self.focus = [i for g in groups for i in GROUPS[g]]

        @rule(j=pick)
        def call(self, j):
            if self.active:
                self.h.apply(["call", self._expr(j)])

        @rule(j=pick)
        def call_again(self, j):
            if self.active:
                self.h.apply(["call", self._expr(j)])

        @rule(j=pick, k=cut)
        def crash_during_write(self, j, k):
            if self.active:
                self.h.apply(["crash", self._expr(j), k])

        @rule(
            target_kind=st.sampled_from(["key", "key", "existing"]), j=pick,
            kind=st.sampled_from(kinds), data=st.binary(max_size=48), other=pick,
        )
        def garbage(self, target_kind, j, kind, data, other):
            if not self.active:
                return
            payload = data.hex() if kind == "bytes" else self._expr(other) if kind == "pickle_pair_other" else 0
            t = self._expr(j) if target_kind == "key" else j
            self.h.apply(["garbage", target_kind, t, kind, payload])

        @rule(ja=pick, jb=pick, same=st.booleans(), k=cut)
        def interleave(self, ja, jb, same, k):
            if self.active:
                a = self._expr(ja)
                self.h.apply(["interleave", a, a if same else self._expr(jb), k])

        def teardown(self):
            if not self.active or self.h is None:
                return
            h, self.h = self.h, None
            res = h.finish()
            report({"mode": h.mode, "ops": h.ops, "_result": res})

    return C16Machine


# ----------------------------------------------------------------------- replay / fixed cases
def run_case(desc) -> Result:
    if "stress" in desc:
        return _run_stress(desc["stress"])
    mode = str(desc.get("mode", current_mode()))
    if mode != current_mode() and not os.environ.get("VP_C16_CHILD"):
        return _run_in_mode(desc, mode)
    if "sweep" in desc:
        return _run_sweep(desc["sweep"])
    h = History()
    try:
        for op in desc["ops"]:
            h.apply(op)
    except BaseException:
        shutil.rmtree(h.dir, ignore_errors=True)
        raise
    res = h.finish()
    if mode != h.mode:
        res.labels.append("replayed_in_other_hashseed_mode")
    return res


def _child_env(mode: str) -> dict:
    env = dict(os.environ)
    env["PYTHONHASHSEED"] = mode if mode.isdigit() else "random"
    env["VP_C16_CHILD"] = "1"
    env["PYTHONPATH"] = os.pathsep.join(
        [str(ROOT), REPO_SRC] + [p for p in env.get("PYTHONPATH", "").split(os.pathsep) if p]
    )
    return env


def _run_in_mode(desc, mode: str) -> Result:
    proc = subprocess.run(
        [sys.executable, "-m", "vp.checks.c16", "--case"],
        input=json.dumps(desc), capture_output=True, text=True, cwd=str(ROOT),
        env=_child_env(mode), timeout=600, check=False,
    )
    try:
        data = json.loads(proc.stdout.strip().splitlines()[-1])
    except (ValueError, IndexError):
        msg = f"C16 child (mode {mode}) failed: exit {proc.returncode}\n{proc.stderr[-1500:]}"
        raise RuntimeError(msg) from None
    return Result(data["status"], data["nontrivial"], data["labels"], data["kind"], data["detail"])


def fixed_cases(tier):
    cases = []
    if os.environ.get("VP_C16_NO_FIXED"):  # sensitivity runs of the generated histories alone
        return cases
    for mode in MODES:
        cases += [
            # the two collisions of the original defect (same key only without a hash seed)
            {"mode": mode, "ops": [["call", 0], ["call", 1], ["call", 2], ["call", 0]]},
            {"mode": mode, "ops": [["call", 3], ["call", 4], ["call", 6], ["call", 5]]},
            # kill at the first byte, in the middle, before the last byte, after the last byte
            {"mode": mode, "ops": [["crash", 7, 0], ["call", 7], ["crash", 0, 17], ["call", 0],
                                   ["crash", 9, -2], ["call", 9], ["crash", 11, -1], ["call", 11]]},
            # unreadable / foreign content at the key
            {"mode": mode, "ops": [["garbage", "key", 10, "bytes", "80049500"], ["call", 10],
                                   ["garbage", "existing", 0, "pickle_int", 0], ["call", 10],
                                   ["garbage", "key", 3, "pickle_pair_other", 4], ["call", 3]]},
            # two writers of one key, of colliding keys, of unrelated keys
            {"mode": mode, "ops": [["interleave", 0, 0, 10], ["interleave", 3, 4, 60],
                                   ["interleave", 9, 10, -1], ["call", 4], ["call", 3]]},
        ]
    # "a crash after every prefix of the bytes written": exhaustive over the cut position
    for i in range(N_POOL):
        cases.append({"mode": MODES[i % 3], "sweep": {"kind": "crash", "a": i, "b": i}})
    for group in GROUPS:  # two writers of colliding keys (same file only without a hash seed)
        for a in group:
            for b in group:
                if a != b:
                    cases.append({"mode": "unset", "sweep": {"kind": "interleave", "a": a, "b": b}})
    for mode, a in (("0", 0), ("7", 9), ("unset", 3)):  # two writers of the same expression
        cases.append({"mode": mode, "sweep": {"kind": "interleave", "a": a, "b": a}})
    if tier == "thorough":
        cases += [{"stress": {"mode": m, "procs": 8, "calls": 200, "seed": n}} for n, m in enumerate(MODES)]
    return cases


def _run_sweep(cfg) -> Result:
    """One small history per cut position k = 0..len(stream): crash(a,k); call(a)  or
    interleave(a,b,k); call(b); call(a).  Returns the first violation (with its ops)."""
    kind, a, b = str(cfg["kind"]), int(cfg["a"]), int(cfg["b"])
    probe = History()
    probe.apply(["crash", a, -1])
    total = next((t[3] for t in probe.trace if t[0] == "crash" and len(t) == 4), None)
    res = probe.finish()
    labels = {f"sweep:{kind}_at_every_prefix"}
    n = 0
    if res.status == "ok" and total is not None:
        for k in range(total + 1):
            if kind == "crash":
                ops = [["crash", a, k], ["call", a]]
            else:
                ops = [["interleave", a, b, k], ["call", b], ["call", a]]
            h = History()
            for op in ops:
                h.apply(op)
            res = h.finish()
            n += 1
            labels.update(res.labels)
            if res.status != "ok":
                break
    elif res.status == "ok":
        labels.add("sweep:nothing_written_through_pickle_dump")
    if res.status != "ok":
        detail = dict(res.detail)
        detail.update(ops=ops if n else [["crash", a, -1]], sweep_histories=n, stream_length=total)
        return violation(res.kind, True, sorted(labels), **detail)
    return ok(True, sorted(labels), sweep_histories=n, stream_length=total)


# ----------------------------------------------------------------------- multi-process stress
STRESS_POOL = [0, 1, 2, 3, 4, 5, 6, 9]


def _run_stress(cfg) -> Result:
    mode, procs, calls, seed = str(cfg["mode"]), int(cfg["procs"]), int(cfg["calls"]), int(cfg["seed"])
    labels = [f"hashseed={mode}", "stress:weak_evidence", f"stress:{procs}x{calls}"]
    directory = tempfile.mkdtemp(prefix="c16-stress-", dir=_workdir())
    try:
        start = time.time() + 6.0  # scheduling only: all workers begin together after importing
        workers = [
            subprocess.Popen(
                [sys.executable, "-m", "vp.checks.c16", "--stress-worker", directory,
                 str(seed * 1000 + n), str(calls), repr(start)],
                stdout=subprocess.PIPE, stderr=subprocess.PIPE, text=True, cwd=str(ROOT),
                env=_child_env(mode),
            )
            for n in range(procs)
        ]
        reports = []
        for n, worker in enumerate(workers):
            try:
                out, err = worker.communicate(timeout=900)
            except subprocess.TimeoutExpired:
                worker.kill()
                worker.communicate()
                return violation("stress_worker_stuck", True, labels, worker=n)
            try:
                reports.append(json.loads(out.strip().splitlines()[-1]))
            except (ValueError, IndexError):
                msg = f"C16 stress worker {n} failed: exit {worker.returncode}\n{err[-1500:]}"
                raise RuntimeError(msg) from None
    finally:
        shutil.rmtree(directory, ignore_errors=True)
    raised = [r for rep in reports for r in rep["raised"]]
    wrong = [r for rep in reports for r in rep["wrong"]]
    misses = sum(rep["misses"] for rep in reports)
    done = sum(rep["calls"] for rep in reports)
    if raised:
        return violation("raises:stress", True, labels, n=len(raised), first=raised[0], calls=done)
    if wrong:
        return violation("wrong_value:stress", True, labels, n=len(wrong), first=wrong[0], calls=done)
    return ok(True, labels, calls=done, misses=misses)


def _stress_worker(directory: str, seed: int, calls: int, start: float) -> dict:
    import random  # noqa: PLC0415  (seeded from the descriptor; scheduling noise is the point here)

    st_ = _setup()
    rng = random.Random(seed)
    raised, wrong = [], []
    while time.time() < start:
        time.sleep(0.005)
    ident = threading.get_ident()
    before = _DUMPS.get(ident, 0)
    for n in range(calls):
        i = STRESS_POOL[rng.randrange(len(STRESS_POOL))]
        try:
            got = st_["call"](st_["pool"][i], directory)
        except Exception as exc:  # noqa: BLE001
            raised.append({"call": n, "expr": POOL_NAMES[i], "exc_type": type(exc).__name__,
                           "frame": innermost_frame(exc), "message": str(exc)[:200]})
            continue
        if not _safe_eq(got, st_["expected"][i]):
            wrong.append({"call": n, "expr": POOL_NAMES[i], "got": _safe_str(got),
                          "want": _safe_str(st_["expected"][i])})
    return {"calls": calls, "raised": raised[:5], "wrong": wrong[:5],
            "misses": _DUMPS.get(ident, 0) - before}


if __name__ == "__main__":
    logging.disable(logging.CRITICAL)
    import warnings

    warnings.filterwarnings("ignore")
    if sys.argv[1:2] == ["--case"]:
        # the module runs as __main__ here: use the importable twin so that state is shared
        from vp.checks import c16 as _twin

        print(json.dumps(_twin.run_case(json.loads(sys.stdin.read())).to_json()))
    elif sys.argv[1:2] == ["--stress-worker"]:
        from vp.checks import c16 as _twin

        print(json.dumps(_twin._stress_worker(sys.argv[2], int(sys.argv[3]), int(sys.argv[4]), float(sys.argv[5]))))
