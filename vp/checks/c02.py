"""C02 — model intensity equals the helicity formula evaluated on the transitions."""

from __future__ import annotations

import cmath
import math

import numpy as np
import sympy as sp
from hypothesis import strategies as st

from vp.gen.config import DEFAULT_CONFIG, FormFactorContract, formulate, prepare
from vp.gen.reactions import reaction_strategy, summarize
from vp.harness import Result, ok, skip, under_test, violation
from vp.ref import helicity as ref

PROPERTY = "C02"
RULE = (
    "Hypothesis draws a synthetic reaction (1-3 topologies, 1-3 nodes, integer/half-integer spins, partial helicity"
    " sets, identical final-state particles, parity-conserving flags, both formalisms), naming flags, coefficient vs"
    " helicity-coupling mode, optional Breit-Wigner dynamics and a seed for 3 numeric points (angles incl. boundary"
    " values theta in {0,pi}, phi=+-pi; complex couplings). Non-trivial: (>=2 nodes or some spin >= 1) and at least one"
    " outer-helicity group with >= 2 coherent terms. Distinct = descriptor hash."
)
ASSUMPTIONS = [
    "reference: Wigner-d and Clebsch-Gordan from factorial formulas (vp/ref/spin.py, validated against sympy only in"
    " its self-test), chain amplitude exp(+i m phi) d^J_{m,l1-l2}(theta) per node with the helicity child = child with"
    " the smaller tuple of attached final-state ids; variable names re-implemented from the documented convention",
    "the sign of a chain that contains a parity-conserving node is not asserted here (C03 decides it); all other chains"
    " must have prefactor +1",
    "component lookup uses the builder's own naming.generate_amplitude_name (the documented way to find a component)",
    "tolerance: |delta| <= 1e-9 * max(1, |reference|) in double precision",
]
BUDGET = {
    "quick": {"examples": 320, "shards": 16, "cap_s": 200, "shrink_calls": 30, "shrink_s": 120, "case_timeout_s": 90},
    "thorough": {"examples": 5000, "shards": 16, "cap_s": 2400, "shrink_calls": 120, "shrink_s": 300, "case_timeout_s": 300},
}
TOL = 1e-9


def _config():
    return st.fixed_dictionaries({
        "helicity_couplings": st.booleans(),
        "parent_hel": st.booleans(),
        "child_hel": st.sampled_from([None, None, True, False]),
        "ls": st.booleans(),
        "bw": st.sampled_from([False, False, True, True, "ff"]),
        "point_seed": st.integers(0, 2**31 - 1),
    })


def strategy(tier):
    if tier == "thorough":
        rs = reaction_strategy(n_final=(2, 3, 4), spin2_max=6, spin_k_max=3, max_transitions=120)
    else:
        rs = reaction_strategy(n_final=(2, 3, 4), spin2_max=4, spin_k_max=2, max_transitions=36)
    return st.fixed_dictionaries({"reaction": rs, "config": _config()})


def fixed_cases(tier):
    def fin(s2, m=0.5, latex=0):
        return {"s2": s2, "P": 1, "m": m, "latex": latex}

    cfg = {"helicity_couplings": False, "parent_hel": False, "child_hel": None, "ls": True, "bw": False, "point_seed": 7}
    # chi_c2 -> gamma gamma like: identical massless spin-1 particles with different helicities (known finding)
    ident_spin = {
        "reaction": {
            "formalism": "helicity", "n": 2, "mu": 0.3, "final": [fin(2, 0.0), fin(2, 0.0)], "ident": [0, 1],
            "initial": {"k": 2, "P": 1, "eps": 0.1, "width": 0.0},
            "topos": [{"idx": 0, "perm": [0, 1], "res": [], "pc": [False]}],
            "hel_init": 0, "hel_final": [0, 0], "max_transitions": 40,
        },
        "config": cfg,
    }
    return [ident_spin]


# ----------------------------------------------------------------------- numeric points
def draw_values(symbols, rng, n_points: int):
    """Random numeric values (arrays of length n_points) per symbol, by the kind its name
    denotes.  Point 2 puts a subset of the angles on boundary values."""
    values = {}
    for s in sorted(symbols, key=str):
        name = s.name
        if name.startswith("phi"):
            v = rng.uniform(-math.pi, math.pi, n_points)
            if rng.random() < 0.5:
                v[-1] = rng.choice([math.pi, -math.pi, 0.0])
        elif name.startswith("theta"):
            v = rng.uniform(0, math.pi, n_points)
            if rng.random() < 0.5:
                v[-1] = rng.choice([0.0, math.pi])
        elif name.startswith(("C_", "H_")):
            v = rng.uniform(-1, 1, n_points) + 1j * rng.uniform(-1, 1, n_points)
        elif name.startswith(R"\Gamma_"):
            v = rng.uniform(0.05, 0.5, n_points)
        else:  # masses and other positive parameters
            v = rng.uniform(0.3, 3.0, n_points)
        values[s] = v
    return values


def breit_wigner(s, m0, w0):
    return m0 * w0 / (m0**2 - s - 1j * m0 * w0)


def _run_case(desc, flags) -> Result:  # noqa: C901, PLR0911, PLR0912, PLR0914, PLR0915
    rdesc, cfg = desc["reaction"], desc["config"]
    config = dict(DEFAULT_CONFIG)
    config.update(
        helicity_couplings=cfg["helicity_couplings"], parent_hel=cfg["parent_hel"], child_hel=cfg["child_hel"], ls=cfg["ls"]
    )
    prepared = prepare(rdesc, config)
    if prepared is None:
        return skip("no_transitions")
    built, builder, reaction = prepared.built, prepared.builder, prepared.reaction
    canonical = rdesc["formalism"] == "canonical-helicity"
    info = summarize(built)
    labels = [f"n={rdesc['n']}", f"topologies={info['n_topologies']}", rdesc["formalism"]]
    if any("/" in s for s in [info["initial_spin"], *info["final_spins"]]):
        labels.append("half_integer")
    if cfg["helicity_couplings"]:
        labels.append("helicity_couplings")

    # dynamics: plain relativistic Breit-Wigner on every resonance (not on the initial state)
    bw_names = set()
    if cfg["bw"]:
        from ampform.dynamics.builder import (  # noqa: PLC0415
            create_relativistic_breit_wigner,
            create_relativistic_breit_wigner_with_ff,
        )

        if cfg["bw"] == "ff":  # L-dependent lineshape: form factor + energy-dependent width
            create_relativistic_breit_wigner = create_relativistic_breit_wigner_with_ff  # noqa: F811
            labels.append("breit_wigner_with_ff")

        for t in reaction.transitions:
            for e, s in t.intermediate_states.items():
                del e
                bw_names.add(s.particle.name)
        for name in sorted(bw_names):
            under_test("dynamics.assign", builder.dynamics.assign, name, create_relativistic_breit_wigner)
        if bw_names:
            labels.append("breit_wigner")
    try:
        model = formulate(prepared)
    except FormFactorContract:
        return skip("form_factor_needs_L", labels)

    # ---- reference terms: transitions + identical-particle copies ---------------------
    terms = []  # (transition, source transition)
    seen = []
    ident_spinful_mixed = False
    for t in reaction.transitions:
        for g in ref.identical_groups(t):
            hels = {t.states[i].spin_projection for i in g}
            if len(hels) > 1:
                ident_spinful_mixed = True
        for s in ref.symmetrized_copies(t):
            if s not in seen:
                seen.append(s)
                terms.append((s, t))
    if any(ref.identical_groups(t) for t in reaction.transitions[:1]):
        labels.append("identical_particles")
    if ident_spinful_mixed:
        labels.append("identical_spinful_distinct_helicities")
    max_ident_group = max((len(g) for t in reaction.transitions[:1] for g in ref.identical_groups(t)), default=1)
    ident_ge3 = max_ident_group >= 3
    if ident_ge3:
        labels.append("identical_group_ge3")
    ident_flags = {
        "identical_spinful_distinct_helicities": ident_spinful_mixed,
        "identical_group_ge3": ident_ge3,
    }
    flags.update(ident_flags)

    groups: dict[tuple, list[int]] = {}
    for idx, (s, _) in enumerate(terms):
        groups.setdefault(ref.outer_key(s), []).append(idx)
    max_coherent = max(len(v) for v in groups.values())
    spin_ge1 = any(st_.particle.spin >= 1 for t in reaction.transitions[:1] for st_ in t.states.values())
    n_nodes = len(reaction.transitions[0].topology.nodes)
    nontrivial = (n_nodes >= 2 or spin_ge1) and max_coherent >= 2
    labels.append(f"nodes={n_nodes}")

    # ---- numeric evaluation of the model --------------------------------------------------
    rng = np.random.default_rng(cfg["point_seed"])
    n_points = 3
    expression = under_test("expression", lambda: model.expression)
    leftover = expression.atoms(sp.Indexed)
    if leftover:
        return violation("undefined_amplitude_symbol", nontrivial, labels, symbols=sorted(map(str, leftover))[:4])
    comp_names, comp_exprs = [], []
    for s, _ in terms:
        name = "A_{" + under_test("generate_amplitude_name", builder.naming.generate_amplitude_name, s) + "}"
        comp_names.append(name)
    missing = sorted({n for n in comp_names if n not in model.components})
    if missing:
        return violation("component_missing", nontrivial, labels, names=missing[:3], n_missing=len(missing), **ident_flags)
    n_a_components = len([k for k in model.components if k.startswith("A_")])
    if n_a_components != len(set(comp_names)):
        return violation(
            "number_of_chain_components", nontrivial, labels, got=n_a_components, want=len(set(comp_names)), **ident_flags
        )
    comp_exprs = [model.components[n] for n in comp_names]
    unfolded = under_test("doit", lambda: [e.doit() for e in [expression, *comp_exprs]])
    symbols = set()
    for e in unfolded:
        symbols |= e.free_symbols
    # every angle/mass symbol the reference needs
    symbols = sorted(symbols, key=str)
    values = draw_values(symbols, rng, n_points)
    if cfg["bw"] == "ff":
        # every decay above threshold, at the pole mass too: a sub-system of k final states gets a mass
        # ~ k^2/4, so that m(k) > m(a) + m(b) for every split k = a + b
        import re  # noqa: PLC0415

        for sym in symbols:
            m = re.fullmatch(r"m_(\d+)", sym.name)
            r = re.fullmatch(r"m_\{R(\d+)\}", sym.name)
            if m:
                values[sym] = 0.25 * len(m.group(1)) ** 2 + rng.uniform(0.0, 0.02, n_points)
            elif r:
                values[sym] = 0.25 * len(r.group(1)) ** 2 * (1 + rng.uniform(-0.05, 0.05, n_points))
            elif sym.name.startswith("d_"):
                values[sym] = rng.uniform(0.5, 2.0, n_points)
    fn = under_test("lambdify", sp.lambdify, symbols, unfolded, "numpy", cse=True)
    out = under_test("evaluate", lambda: fn(*[values[s] for s in symbols]))
    out = [np.broadcast_to(np.asarray(o, dtype=complex), (n_points,)) for o in out]
    model_intensity = out[0]
    model_components = out[1:]
    by_name = {s.name: values[s] for s in symbols}
    # angle symbols that dropped out of the model (e.g. D^0_00 = 1) still get a value
    needed = set()
    for s_, _ in terms:
        for node in s_.topology.nodes:
            needed.update(ref.angle_names(s_.topology, ref.children_of(s_.topology, node)[0]))
    for name in sorted(needed - set(by_name)):
        by_name[name] = draw_values([sp.Symbol(name)], rng, n_points)[sp.Symbol(name)]

    # ---- reference ---------------------------------------------------------------------------
    def point_values(k):
        return {name: (v[k] if np.ndim(v) else v) for name, v in by_name.items()}

    ref_terms = np.zeros((len(terms), n_points), dtype=complex)
    for idx, ((s, src), comp_name) in enumerate(zip(terms, comp_names)):
        del src
        comp_expr = model.components[comp_name]
        coeff_syms = sorted((x for x in comp_expr.free_symbols if x.name.startswith(("C_", "H_"))), key=str)
        want_n = n_nodes if cfg["helicity_couplings"] else 1
        if len(coeff_syms) > want_n or (not cfg["helicity_couplings"] and len(coeff_syms) != 1):
            return violation(
                "coefficient_symbols", nontrivial, labels, component=comp_name,
                got=[x.name for x in coeff_syms], want_count=want_n,
            )
        for k in range(n_points):
            pv = point_values(k)
            missing_vars = []
            try:
                b = ref.chain_amplitude(s, pv, canonical)
            except KeyError as exc:
                missing_vars.append(str(exc))
                return violation("angle_symbol_missing_in_model", nontrivial, labels, component=comp_name, symbol=str(exc))
            c = 1.0 + 0j
            for x in coeff_syms:
                # a coupling that occurs at two nodes appears squared
                c *= pv[x.name] ** _power_of(comp_expr, x)
            shape = 1.0 + 0j
            for node in sorted(s.topology.nodes):
                par = ref.parent_of(s.topology, node)
                particle = s.states[par].particle
                if particle.name in bw_names:
                    ident = particle.latex or particle.name
                    try:
                        m_inv = pv[ref.mass_name(s.topology, par)]
                        m0 = pv[f"m_{{{ident}}}"]
                        w0 = pv[Rf"\Gamma_{{{ident}}}"]
                    except KeyError as exc:
                        return violation("lineshape_symbol_missing_in_model", nontrivial, labels, component=comp_name, symbol=str(exc))
                    if cfg["bw"] == "ff":
                        from vp.ref import dyn  # noqa: PLC0415

                        a_, b_ = ref.children_of(s.topology, node)
                        inter = s.interactions[node]
                        ell = inter.l_magnitude
                        if ell is None and particle.spin.denominator == 1:
                            ell = int(particle.spin)
                        try:
                            ma = pv[ref.mass_name(s.topology, a_)]
                            mb = pv[ref.mass_name(s.topology, b_)]
                            # for L = 0 the barrier factor is identically 1 and the radius drops out
                            radius = pv.get(f"d_{{{ident}}}", 1.0) if ell == 0 else pv[f"d_{{{ident}}}"]
                        except KeyError as exc:
                            return violation("lineshape_symbol_missing_in_model", nontrivial, labels, component=comp_name, symbol=str(exc))
                        out_ = dyn.breit_wigner_ref(
                            float(np.real(m_inv)) ** 2, float(np.real(m0)), float(np.real(w0)), float(np.real(ma)),
                            float(np.real(mb)), ell, float(np.real(radius)), "PhaseSpaceFactor", True, True,
                        )
                        shape *= out_["value"]
                    else:
                        shape *= breit_wigner(m_inv**2, m0, w0)
            ref_terms[idx, k] = c * b * shape

    # (a) component level.  Symmetrized copies of a chain share one component name (names do
    # not contain edge ids): the named component must equal (up to the sign, if the chain has a
    # parity-conserving node) one of the chains that carry its name.
    signs = np.ones(len(terms))
    name_groups: dict[str, list[int]] = {}
    for idx, name in enumerate(comp_names):
        name_groups.setdefault(name, []).append(idx)
    for name, members in name_groups.items():
        got = model_components[members[0]]
        has_pc = any(i.parity_prefactor is not None for i in terms[members[0]][0].interactions.values())
        matched = None
        for idx in members:
            want = ref_terms[idx]
            scale = np.maximum(1.0, np.abs(want))
            if np.all(np.abs(got - want) <= TOL * scale):
                matched = 1.0
                break
            if np.all(np.abs(got + want) <= TOL * scale):
                matched = -1.0
                break
        if matched is None or (matched < 0 and not has_pc):
            want = ref_terms[members[0]]
            return violation(
                "chain_amplitude_differs" if matched is None else "unexpected_sign_without_parity_node",
                nontrivial, labels, component=name, n_chains_with_this_name=len(members),
                got=[complex(x) for x in got], want=[complex(x) for x in want],
            )
        for idx in members:
            signs[idx] = matched

    # (b) intensity level
    ref_intensity = np.zeros(n_points)
    for members in groups.values():
        amp = np.zeros(n_points, dtype=complex)
        for idx in members:
            amp += signs[idx] * ref_terms[idx]
        ref_intensity += np.abs(amp) ** 2
    scale = np.maximum(1.0, np.abs(ref_intensity))
    err = np.abs(model_intensity - ref_intensity)
    if not np.all(err <= 1e-8 * scale):
        return violation(
            "intensity_differs_from_helicity_formula", nontrivial, labels, **ident_flags,
            got=[complex(x) for x in model_intensity], want=[float(x) for x in ref_intensity],
            n_groups=len(groups), n_terms=len(terms),
        )
    if np.max(np.abs(model_intensity.imag)) > 1e-9 * float(np.max(scale)):
        return violation("intensity_not_real", nontrivial, labels, got=[complex(x) for x in model_intensity])

    # (c) I_ components equal their group's term
    i_comps = {k: v for k, v in model.components.items() if k.startswith("I_")}
    group_values = sorted(
        float(np.sum(np.abs(sum(signs[i] * ref_terms[i] for i in members)) ** 2)) for members in groups.values()
    )
    del group_values
    if not ident_spinful_mixed:
        ivals = under_test(
            "I_components",
            lambda: sp.lambdify(symbols, [e.doit() for e in i_comps.values()], "numpy", cse=True)(*[values[s] for s in symbols]),
        )
        ivals = [np.broadcast_to(np.asarray(v, dtype=complex), (n_points,)).real for v in ivals]
        total = np.sum(ivals, axis=0) if ivals else np.zeros(n_points)
        if not np.all(np.abs(total - ref_intensity) <= 1e-8 * scale):
            return violation(
                "sum_of_I_components_differs_from_intensity", nontrivial, labels,
                got=[float(x) for x in total], want=[float(x) for x in ref_intensity],
            )
        # each I component must equal one group's term (as multisets per point 0)
        want_sorted = sorted(
            float((np.abs(sum(signs[i] * ref_terms[i] for i in members)) ** 2)[0]) for members in groups.values()
        )
        got_sorted = sorted(float(v[0]) for v in ivals)
        # groups whose term vanishes identically have no I component: compare non-zero parts
        w = [x for x in want_sorted if abs(x) > 1e-12]
        g = [x for x in got_sorted if abs(x) > 1e-12]
        if len(w) != len(g) or any(abs(a - b) > 1e-8 * max(1.0, abs(b)) for a, b in zip(g, w)):
            return violation("I_components_differ_from_group_terms", nontrivial, labels, got=g[:6], want=w[:6])
    return ok(
        nontrivial, labels, n_terms=len(terms), n_groups=len(groups), max_coherent=max_coherent,
        intensity=[float(x) for x in ref_intensity],
    )


def run_case(desc) -> Result:
    """All failures of a reaction whose identical-particle symmetrisation is known to be
    wrong are reported under one kind (with the structural flags the findings match on)."""
    flags: dict = {}
    res = _run_case(desc, flags)
    if res.status == "violation" and (
        flags.get("identical_spinful_distinct_helicities") or flags.get("identical_group_ge3")
    ):
        detail = dict(res.detail)
        detail.update(flags)
        detail["first_failing_clause"] = res.kind
        return Result("violation", res.nontrivial, res.labels, "symmetrisation_of_identical_particles", detail)
    return res


def _power_of(expr, symbol) -> int:
    """Exponent with which `symbol` occurs in the monomial `expr`."""
    power = expr.as_powers_dict().get(symbol, 1)
    return int(power) if getattr(power, "is_Integer", False) else 1
