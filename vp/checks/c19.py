"""C19 — Dalitz-plot-decomposition angles satisfy their geometry and identities.

Generator: one three-body event per case, built in numpy from the descriptor (masses incl.
massless / equal, energy release, which pair is the "isobar", the pair mass as a fraction
of its allowed range incl. values within 1e-6 of either threshold, the decay angle of the
pair incl. collinear configurations within 10^[-8,-1] of 0 or pi, azimuth and an overall
rotation), so every Dalitz point is physical by construction.

Oracle (``vp.ref.dalitz``, numpy only): angles between three-momenta in the parent frame,
helicity angles after an explicit boost into the pair rest frame, and the identities the
property lists.  The ampform expressions are evaluated with ``doit()`` + ``lambdify`` on the
masses and the pair masses ``m_ij = sqrt((p_i+p_j)^2)`` of the event.

Conventions re-derived from the paper (Mikhasenko et al., PRD 101 034033, App. A) and the
docstrings: ``sigma_k = m_ij^2``; ``theta_ij`` is the polar angle of particle i in the (ij)
rest frame w.r.t. the line of flight of (ij) in the parent frame (= direction opposite to
the spectator k); ``theta-hat_{i(j)}`` is +angle(p_i, p_j) for (i,j) in {(1,2),(2,3),(3,1)}
and minus that for the reversed pairs; ``zeta^0_{k(j)} = theta-hat_{k(j)}``.
"""

from __future__ import annotations

import functools
import itertools
import math

import numpy as np
import sympy as sp
from hypothesis import strategies as st

from vp.harness import Result, ok, under_test, violation
from vp.ref import dalitz as dz

PROPERTY = "C19"
RULE = (
    "Hypothesis draws one 3-body event per case (masses from {0, PDG-like constants, floats}, "
    "energy release 10^[-3,1], spectator id, pair-mass fraction incl. 10^[-6,-1] from either "
    "threshold, pair decay angle uniform in cos or within 10^[-8,-1] of 0/pi, azimuth, Euler "
    "rotation); all 6 scattering, 9 theta-hat and 45 zeta expressions are evaluated at the "
    "event's (m_i, m_ij). Plus the exhaustive definedness table over {0..3}^2, {0..3}^2, "
    "{0..3}^3 as fixed cases. Non-trivial: m1, m2, m3 pairwise distinct, every reference "
    "angle has sin >= 1e-3 (distance from the Dalitz boundary) and condition estimate "
    "K <= 1e6. Distinct = distinct descriptor hash."
)
ASSUMPTIONS = [
    "sign convention of theta-hat taken from the paper/test-suite: positive for (1,2), (2,3), (3,1)",
    "an index tuple is 'defined' iff scattering: i != j in {1,2,3}; theta-hat: i, j in {1,2,3}; "
    "zeta^i_{k(r)}: k in {1,2,3} and (i in {1,2,3}, r in {0,1,2,3}) or (i = 0, r in {1,2,3}); all other "
    "tuples of {0,1,2,3} must raise ValueError or NotImplementedError",
    "double precision: the cosine computed by the library may differ from the exact one by "
    "dc = 1e-13*K, K = (sqrt(Ka)+sqrt(Kb))^2 with Ka = (x+y+z)^2/lambda(x,y,z) the rounding amplification of each "
    "expanded Kallen factor of its denominator (lambda measured from the event's momenta); "
    "angle tolerance 1e-10 + min(2 dc/sin(theta_ref), 3 sqrt(dc)); an arccos argument may exceed 1 by dc "
    "(the result is then nan: labelled nan_from_rounding, identities involving it are not asserted)",
    "zeta angles are only checked through the identities the property states (no geometric oracle)",
]
BUDGET = {
    "quick": {"examples": 20000, "shards": 16, "cap_s": 100, "shrink_calls": 300, "shrink_s": 40},
    "thorough": {"examples": 2000000, "shards": 16, "cap_s": 1500, "shrink_calls": 1000, "shrink_s": 240},
}

FUNCS = ("scat", "hat", "zeta")
ARITY = {"scat": 2, "hat": 2, "zeta": 3}
HAT_POSITIVE = {(1, 2), (2, 3), (3, 1)}
EPS_COS = 1e-13
SYMBOL_NAMES = ("m_0", "m_1", "m_2", "m_3", "m_12", "m_13", "m_23")


def is_defined(fn: str, idx) -> bool:
    idx = tuple(idx)
    if fn == "scat":
        i, j = idx
        return i != j and {i, j} <= {1, 2, 3}
    if fn == "hat":
        return set(idx) <= {1, 2, 3}
    i, k, r = idx
    if k not in {1, 2, 3}:
        return False
    if i == 0:
        return r in {1, 2, 3}
    return True


def _function(fn: str):
    from ampform.kinematics import angles  # noqa: PLC0415

    return {
        "scat": angles.formulate_scattering_angle,
        "hat": angles.formulate_theta_hat_angle,
        "zeta": angles.formulate_zeta_angle,
    }[fn]


# ----------------------------------------------------------------------- strategies
_MASS = st.one_of(
    st.just(0.0),
    st.sampled_from([0.13957, 0.49368, 0.93827, 1.0]),
    st.sampled_from([0.13957, 0.49368, 0.93827, 1.0]),
    st.floats(1e-3, 3.0),
    st.floats(1e-3, 3.0),
    st.floats(1e-3, 3.0),
    st.floats(1e-3, 3.0),
)
_GENERIC_MASS = st.floats(0.01, 3.0)
_MASSES = st.one_of(
    st.tuples(_GENERIC_MASS, _GENERIC_MASS, _GENERIC_MASS).map(list),  # generic: pairwise distinct
    st.lists(_MASS, min_size=3, max_size=3),  # special values: massless, equal masses
)
_LOG = lambda lo, hi: st.floats(lo, hi).map(lambda e: 10.0**e)  # noqa: E731
_THETA = st.one_of(
    st.floats(-1.0, 1.0).map(math.acos),
    st.floats(-1.0, 1.0).map(math.acos),
    st.floats(-1.0, 1.0).map(math.acos),
    st.floats(-1.0, 1.0).map(math.acos),
    _LOG(-8.0, -1.0),
    _LOG(-8.0, -1.0).map(lambda d: math.pi - d),
)
_FRACTION = st.one_of(
    st.floats(0.001, 0.999),
    st.floats(0.001, 0.999),
    st.floats(0.001, 0.999),
    st.floats(0.001, 0.999),
    _LOG(-6.0, -1.0),
    _LOG(-6.0, -1.0).map(lambda d: 1.0 - d),
)
_ANGLE = st.floats(-math.pi, math.pi)


def strategy(tier):
    return st.fixed_dictionaries({
        "kind": st.just("point"),
        "m": _MASSES,
        "q": _LOG(-3.0, 1.0),
        "spect": st.sampled_from([1, 2, 3]),
        "x": _FRACTION,
        "theta": _THETA,
        "phi": _ANGLE,
        "euler": st.tuples(_ANGLE, st.floats(0.0, math.pi), _ANGLE).map(list),
    })


def _point(m, q, spect, x, theta, phi=0.3, euler=(0.4, 1.1, -2.0)):
    return {"kind": "point", "m": list(m), "q": q, "spect": spect, "x": x, "theta": theta,
            "phi": phi, "euler": list(euler)}


def fixed_cases(tier):
    cases = []
    for fn in FUNCS:
        for idx in itertools.product(range(4), repeat=ARITY[fn]):
            cases.append({"kind": "definedness", "fn": fn, "idx": list(idx)})
    # the mass set of the test-suite, equal masses, massless, exactly collinear
    cases += [
        _point([0.94, 0.14, 0.49], 0.73, 1, 0.4, 1.0),
        _point([0.14, 0.14, 0.14], 1.0, 2, 0.5, 2.0),
        _point([0.0, 0.0, 0.0], 1.0, 3, 0.5, 0.7),
        _point([0.0, 0.5, 0.2], 1.0, 1, 0.3, 2.5),
        _point([0.94, 0.14, 0.49], 0.73, 1, 0.4, 0.0),
        _point([0.94, 0.14, 0.49], 0.73, 2, 0.4, math.pi),
        _point([0.3, 0.5, 0.2], 1.0, 3, 1e-6, 1.0),
        _point([0.3, 0.5, 0.2], 1.0, 3, 1.0 - 1e-6, 1.0),
    ]
    return cases


# ----------------------------------------------------------------------- code under test
@functools.lru_cache(maxsize=1)
def _bundle():
    """Formulate and lambdify every defined angle once per process.

    Returns ``(keys, func, symbols, acos_index)``: ``func(*values)`` gives the list of angle
    values followed by the list of arccos arguments; ``acos_index[key]`` is the position of
    the key's arccos argument (or None when the expression is the constant 0).
    """
    keys, exprs, cos_args, acos_index = [], [], [], {}
    for fn in FUNCS:
        for idx in itertools.product(range(4), repeat=ARITY[fn]):
            if not is_defined(fn, idx):
                continue
            _, expr = under_test(f"formulate:{fn}", _function(fn), *idx)
            expr = sp.sympify(expr)
            acos = sorted(expr.atoms(sp.acos), key=str)
            key = (fn, *idx)
            keys.append(key)
            exprs.append(under_test(f"doit:{fn}", expr.doit))
            if acos:
                acos_index[key] = [len(cos_args) + n for n in range(len(acos))]
                cos_args.extend(under_test(f"doit:{fn}", a.args[0].doit) for a in acos)
            else:
                acos_index[key] = []
    free = sorted(set().union(*[e.free_symbols for e in exprs + cos_args]), key=str)
    func = under_test("lambdify", sp.lambdify, free, [exprs, cos_args], "numpy", cse=True)
    return keys, func, [s.name for s in free], acos_index


def _evaluate(values_by_name):
    keys, func, names, acos_index = _bundle()
    unknown = [n for n in names if n not in values_by_name]
    if unknown:
        return None, None, unknown
    args = [np.float64(values_by_name[n]) for n in names]
    with np.errstate(all="ignore"):
        vals, cos_args = under_test("evaluate", func, *args)
    vals = {k: float(v) for k, v in zip(keys, vals)}
    cos_by_key = {k: [float(cos_args[n]) for n in acos_index[k]] for k in keys}
    return vals, cos_by_key, []


# ----------------------------------------------------------------------- tolerances
def _angle_tol(dc: float, sin_ref: float) -> float:
    if sin_ref > 0.0:
        return 1e-10 + min(2.0 * dc / sin_ref, 3.0 * math.sqrt(dc))
    return 1e-10 + 3.0 * math.sqrt(dc)


# ----------------------------------------------------------------------- cases
def _run_definedness(desc) -> Result:
    fn, idx = desc["fn"], tuple(desc["idx"])
    defined = is_defined(fn, idx)
    labels = [f"definedness:{fn}", "defined" if defined else "undefined"]
    try:
        out = _function(fn)(*idx)
    except (ValueError, NotImplementedError) as exc:
        if defined:
            return violation("defined_tuple_raises", True, labels, fn=fn, idx=list(idx),
                             exc_type=type(exc).__name__, message=str(exc)[:200])
        return ok(True, [*labels, f"raises:{type(exc).__name__}"], fn=fn, idx=list(idx))
    except Exception as exc:  # noqa: BLE001
        return violation("wrong_exception", True, labels, fn=fn, idx=list(idx), defined=defined,
                         exc_type=type(exc).__name__, message=str(exc)[:200])
    if not defined:
        return violation("undefined_tuple_returns", True, labels, fn=fn, idx=list(idx), got=str(out)[:200])
    if not (isinstance(out, tuple) and len(out) == 2 and isinstance(out[0], sp.Symbol)):
        return violation("bad_return_shape", True, labels, fn=fn, idx=list(idx), got=str(out)[:200])
    return ok(True, labels, fn=fn, idx=list(idx), symbol=str(out[0]))


def run_case(desc) -> Result:  # noqa: C901, PLR0911, PLR0912, PLR0914, PLR0915
    if desc["kind"] == "definedness":
        return _run_definedness(desc)

    masses = [float(v) for v in desc["m"]]
    m0 = sum(masses) + float(desc["q"])
    if not m0 > sum(masses):
        return ok(False, ["degenerate:no_energy_release"])
    p, _ = dz.make_event(m0, masses, desc["spect"], desc["x"], desc["theta"], desc["phi"], desc["euler"])

    # ---- reference quantities from the four-momenta (multi-precision, see vp.ref.dalitz)
    sigma_mp = {k: dz.minkowski2(dz.add(p[dz.others(k)[0]], p[dz.others(k)[1]])) for k in dz.IDS}
    if min(sigma_mp.values()) <= dz.mpf(1e-25) * dz.mpf(m0) ** 2:
        # two collinear massless particles: that pair has no rest frame (sigma_k = 0 up to the 50 digits of
        # the reference); the generator otherwise keeps sigma_k >= ~1e-16 m0^2
        return ok(False, ["degenerate:massless_pair_with_zero_invariant_mass"])
    sigma = {k: float(v) for k, v in sigma_mp.items()}
    # Kallen factors of the denominators, from the momenta (no cancellation), and the
    # relative rounding error K = (x+y+z)^2 / lambda(x,y,z) of their expanded polynomial form
    msq = [dz.mpf(v) ** 2 for v in masses]
    m0sq = dz.mpf(m0) ** 2
    k_parent, k_pair, ref_theta, ref_hat = {}, {}, {}, {}
    lams = []
    for k in dz.IDS:
        lam = 4 * m0sq * dz.dot3(p[k], p[k])
        lams.append(lam)
        if lam > 0:
            k_parent[k] = float((m0sq + msq[k - 1] + sigma_mp[k]) ** 2 / lam)
    for i, j in itertools.permutations(dz.IDS, 2):
        k = dz.third(i, j)
        pair = dz.add(p[i], p[j])
        pi_rest = dz.boost_to_rest(p[i], pair)
        ref_theta[i, j] = float(dz.angle_between(pi_rest, pair))
        ref_hat[i, j] = float(dz.angle_between(p[i], p[j]))
        lam = 4 * sigma_mp[k] * dz.dot3(pi_rest, pi_rest)
        lams.append(lam)
        if lam > 0:
            k_pair[k] = float((sigma_mp[k] + msq[i - 1] + msq[j - 1]) ** 2 / lam)
    if min(lams) <= 0:
        return ok(False, ["degenerate:zero_momentum"])

    def cond(*ks):
        return sum(math.sqrt(v) for v in ks) ** 2

    k_scat = {(i, j): cond(k_parent[dz.third(i, j)], k_pair[dz.third(i, j)]) for (i, j) in ref_theta}
    k_hat = {(i, j): cond(k_parent[i], k_parent[j]) for (i, j) in ref_hat}
    k_zeta = {i: cond(k_parent[i], max(k_pair[k] for k in dz.IDS if k != i)) for i in dz.IDS}
    k_max = max(max(k_scat.values()), max(k_hat.values()), max(k_zeta.values()))

    def key_cond(key):
        fn = key[0]
        if fn == "scat":
            return k_scat[key[1], key[2]]
        if fn == "hat":
            return k_hat[key[1], key[2]] if key[1] != key[2] else 1.0
        if key[1] == 0:
            return k_hat[key[2], key[3]] if key[2] != key[3] else 1.0
        return k_zeta[key[1]]

    # ---- labels
    sines = [math.sin(a) for a in ref_theta.values()] + [math.sin(a) for a in ref_hat.values()]
    min_sin = min(sines)
    n_massless = sum(1 for v in masses if v == 0.0)
    n_distinct = len(set(masses))
    labels = [
        f"massless:{n_massless}",
        {1: "masses:all_equal", 2: "masses:two_equal", 3: "masses:distinct"}[n_distinct],
        "boundary:" + ("exact" if min_sin == 0.0 else "<1e-6" if min_sin < 1e-6 else "<1e-3" if min_sin < 1e-3
                       else "interior"),
        "cond:" + ("<=1e3" if k_max <= 1e3 else "<=1e6" if k_max <= 1e6 else "<=1e9" if k_max <= 1e9 else ">1e9"),
    ]
    x = float(desc["x"])
    if x < 1e-3 or x > 1.0 - 1e-3:
        labels.append("near_threshold")
    if k_max > 1e6:
        labels.append("ill_conditioned")
    nontrivial = n_distinct == 3 and min_sin >= 1e-3 and k_max <= 1e6

    # ---- code under test
    values = {"m_0": m0, "m_1": masses[0], "m_2": masses[1], "m_3": masses[2],
              "m_12": math.sqrt(sigma[3]), "m_13": math.sqrt(sigma[2]), "m_23": math.sqrt(sigma[1])}
    vals, cos_by_key, unknown = _evaluate(values)
    if unknown:
        return violation("unexpected_symbol", nontrivial, labels, symbols=unknown)

    # 1. arccos arguments
    nan_keys = set()
    for key, cs in cos_by_key.items():
        dc = EPS_COS * key_cond(key)
        for c in cs:
            if dc >= 1.0:
                continue  # 0/0 corner: nothing can be said in double precision
            if not math.isfinite(c) or abs(c) > 1.0 + dc:
                return violation("acos_argument_out_of_range", nontrivial, labels, angle=list(key), argument=c,
                                 allowed_excess=dc, condition=key_cond(key), min_sin=min_sin)
        if not math.isfinite(vals[key]):
            nan_keys.add(key)
            if dc < 1.0 and not any(abs(c) > 1.0 for c in cs):
                return violation("angle_not_finite", nontrivial, labels, angle=list(key), value=repr(vals[key]),
                                 arguments=cs)
    if nan_keys:
        # arccos argument 1 + O(1e-16): nan in double precision although the exact value is in range
        labels.append("nan_from_rounding")
        labels.append("nan_from_rounding:" + ("interior_point" if min_sin >= 1e-3 and k_max <= 1e6 else "boundary"))
        if any(key[0] == "zeta" and key[1] != 0 and masses[key[1] - 1] == 0.0 for key in nan_keys):
            labels.append("nan_from_rounding:zeta_of_massless_particle")
    worst = 0.0

    def close(got, want, tol):
        nonlocal worst
        err = abs(got - want)
        worst = max(worst, err / tol)
        return err <= tol

    # 2. theta-hat: geometry, sign convention, antisymmetry, zero diagonal
    for i in dz.IDS:
        if vals["hat", i, i] != 0.0:
            return violation("theta_hat_diagonal_nonzero", nontrivial, labels, i=i, got=vals["hat", i, i])
    for (i, j), ref in ref_hat.items():
        got, rev = vals["hat", i, j], vals["hat", j, i]
        if ("hat", i, j) in nan_keys or ("hat", j, i) in nan_keys:
            continue
        if got != -rev:
            return violation("theta_hat_not_antisymmetric", nontrivial, labels, i=i, j=j, got=got, reverse=rev)
        dc = EPS_COS * k_hat[i, j]
        if dc >= 1.0:
            continue
        tol = _angle_tol(dc, math.sin(ref))
        if not close(abs(got), ref, tol):
            return violation("theta_hat_differs_from_momentum_angle", nontrivial, labels, i=i, j=j, got=got,
                             want=ref, tolerance=tol, condition=k_hat[i, j])
        want_sign = 1.0 if (i, j) in HAT_POSITIVE else -1.0
        if abs(got) > tol and math.copysign(1.0, got) != want_sign:
            return violation("theta_hat_sign_convention", nontrivial, labels, i=i, j=j, got=got,
                             want=want_sign * ref)

    # 3. scattering angle: helicity angle of i in the (ij) frame; theta_ij + theta_ji = pi
    for (i, j), ref in ref_theta.items():
        got = vals["scat", i, j]
        dc = EPS_COS * k_scat[i, j]
        if ("scat", i, j) in nan_keys or dc >= 1.0:
            continue
        tol = _angle_tol(dc, math.sin(ref))
        if not close(got, ref, tol):
            return violation("scattering_angle_differs_from_helicity_angle", nontrivial, labels, i=i, j=j,
                             got=got, want=ref, tolerance=tol, condition=k_scat[i, j])
        rev = vals["scat", j, i]
        if i < j and ("scat", j, i) not in nan_keys and not close(got + rev, math.pi, 2.0 * tol):
            return violation("scattering_angles_do_not_add_to_pi", nontrivial, labels, i=i, j=j, got=got + rev,
                             want=math.pi, tolerance=2.0 * tol)

    # 4. zeta identities
    def same(a, b):
        return a == b or (math.isnan(a) and math.isnan(b))

    for i, k in itertools.product(dz.IDS, repeat=2):
        z0, zi, zk = vals["zeta", i, k, 0], vals["zeta", i, k, i], vals["zeta", i, k, k]
        if not same(z0, zi):
            return violation("zeta_reference_0_differs_from_reference_i", nontrivial, labels, i=i, k=k,
                             zeta_k0=z0, zeta_ki=zi)
        if zk != 0.0:
            return violation("zeta_kk_nonzero", nontrivial, labels, i=i, k=k, got=zk)
    for k, r in itertools.product(dz.IDS, repeat=2):  # zeta^0 is theta-hat
        if not same(vals["zeta", 0, k, r], vals["hat", k, r]):
            return violation("zeta0_differs_from_theta_hat", nontrivial, labels, k=k, r=r,
                             got=vals["zeta", 0, k, r], want=vals["hat", k, r])
    for i in dz.IDS:
        dc = EPS_COS * k_zeta[i]
        if dc >= 1.0:
            continue
        for a, b, c in itertools.permutations(dz.IDS):
            # zeta^i_{a(c)} = zeta^i_{a(b)} + zeta^i_{b(c)}
            parts = [("zeta", i, a, c), ("zeta", i, a, b), ("zeta", i, b, c)]
            if any(key in nan_keys for key in parts):
                continue
            lhs, r1, r2 = (vals[key] for key in parts)
            tol = sum(_angle_tol(dc, abs(math.sin(v))) for v in (lhs, r1, r2))
            if not close(lhs, r1 + r2, tol):
                return violation("zeta_sum_rule", nontrivial, labels, i=i, a=a, b=b, c=c, lhs=lhs,
                                 rhs=r1 + r2, terms=[r1, r2], tolerance=tol, condition=k_zeta[i])
    return ok(nontrivial, labels, min_sin=min_sin, condition=k_max, worst_error_over_tolerance=worst)
