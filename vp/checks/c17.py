"""C17 — rename_symbols is a consistent renaming of the whole model."""

from __future__ import annotations

import numpy as np
import sympy as sp
from hypothesis import strategies as st

from vp.checks.c02 import draw_values
from vp.evalmodel import fast_scalar_function
from vp.forkserver import model_digest
from vp.gen.config import FormFactorContract, config_strategy, formulate, prepare
from vp.gen.reactions import reaction_strategy
from vp.harness import Result, ok, skip, under_test, violation

PROPERTY = "C17"
RULE = (
    "Hypothesis draws a small synthetic reaction + builder configuration (alignment none/DPD, stable ids, scalar mass,"
    " helicity couplings, dynamics) and 1-3 successive rename maps built from index-based operations: parameter -> fresh"
    " name, parameter -> name of another parameter (merge), swap of two parameters, chain a->b b->c, kinematic variable"
    " -> fresh name, unknown name, empty map. Non-trivial: a renamed symbol occurs in >= 2 attributes, or a merge."
    " Distinct = descriptor hash."
)
ASSUMPTIONS = [
    "expected model = every attribute with the induced Symbol->Symbol map applied by sympy xreplace in harness code"
    " (keys and values; amplitude keys untouched); a merged parameter may keep either original default",
    "merges are generated between parameters of equal assumptions (the documented use: couple parameters); maps that"
    " merge a parameter with a kinematic variable are generated only to assert that nothing raises",
    "numeric comparison at 3 random points with relative tolerance 1e-9",
]
BUDGET = {
    "quick": {"examples": 320, "shards": 16, "cap_s": 150, "shrink_calls": 40, "shrink_s": 120, "case_timeout_s": 60},
    "thorough": {"examples": 5000, "shards": 16, "cap_s": 2400, "shrink_calls": 150, "shrink_s": 300, "case_timeout_s": 240},
}

OPS = ["fresh", "fresh", "merge", "merge", "swap", "chain", "kin_fresh", "kin_fresh", "again", "again", "unknown", "param_to_kin"]


def _map():
    op = st.tuples(st.sampled_from(OPS), st.integers(0, 40), st.integers(0, 40)).map(list)
    return st.lists(op, min_size=0, max_size=4)


def strategy(tier):
    rs = reaction_strategy(
        n_final=(2, 3, 3), max_topos=2, spin2_max=2, spin_k_max=1, max_transitions=16 if tier == "quick" else 40,
    )
    return rs.flatmap(
        lambda r: st.fixed_dictionaries({
            "reaction": st.just(r),
            "config": config_strategy(r, alignments=("none", "none", "dpd")),
            "maps": st.lists(_map(), min_size=1, max_size=3),
            "point_seed": st.integers(0, 2**31 - 1),
        })
    )


def resolve(ops, params, kins, previous_targets=()):
    """Index-based operations -> {old name: new name}.  Returns (mapping, flags).

    ``again`` renames a symbol that an *earlier* map of the same case has produced (a rename of
    a rename: the model returned by rename_symbols must itself be a fully consistent model)."""
    mapping: dict[str, str] = {}
    flags = set()
    existing = {p.name for p in params} | {k.name for k in kins}
    again_pool = [t for t in previous_targets if t in existing]
    pnames = [p.name for p in params]
    knames = [k.name for k in kins]
    by_name = {p.name: p for p in params}
    for kind, i, j in ops:
        if kind == "fresh" and pnames:
            mapping[pnames[i % len(pnames)]] = f"q_{{{j}}}"
            flags.add("fresh")
        elif kind == "merge" and len(pnames) >= 2:
            a, b = pnames[i % len(pnames)], pnames[j % len(pnames)]
            if a != b and by_name[a].assumptions0 == by_name[b].assumptions0 and a not in mapping.values():
                mapping[a] = b
                flags.add("merge")
        elif kind == "swap" and len(pnames) >= 2:
            a, b = pnames[i % len(pnames)], pnames[j % len(pnames)]
            if a != b and by_name[a].assumptions0 == by_name[b].assumptions0 and a not in mapping and b not in mapping:
                mapping[a], mapping[b] = b, a
                flags.add("swap")
        elif kind == "chain" and len(pnames) >= 2:
            a, b = pnames[i % len(pnames)], pnames[j % len(pnames)]
            if a != b and by_name[a].assumptions0 == by_name[b].assumptions0 and a not in mapping and b not in mapping:
                mapping[a] = b
                mapping[b] = f"r_{{{j}}}"
                flags.add("chain")
        elif kind == "kin_fresh" and knames:
            mapping[knames[i % len(knames)]] = f"v_{{{j}}}"
            flags.add("kinematic_variable")
        elif kind == "again" and again_pool:
            name = again_pool[i % len(again_pool)]
            if name not in mapping:
                mapping[name] = f"w_{{{j}}}"
                flags.add("rename_of_a_renamed_symbol")
        elif kind == "unknown":
            mapping[f"zz{j}"] = f"yy{i}"
            flags.add("unknown_name")
        elif kind == "param_to_kin" and pnames and knames:
            mapping[pnames[i % len(pnames)]] = knames[j % len(knames)]
            flags.add("outside_documented_use")
    return mapping, flags


def same_model(a, b) -> bool:
    """Attribute-wise equality incl. dictionary order (sympy equality: two Symbols with equal
    derived assumptions are equal although srepr prints their generators differently)."""
    return (
        a.intensity == b.intensity
        and list(a.amplitudes.items()) == list(b.amplitudes.items())
        and list(a.parameter_defaults.items()) == list(b.parameter_defaults.items())
        and list(a.kinematic_variables.items()) == list(b.kinematic_variables.items())
        and list(a.components.items()) == list(b.components.items())
    )


def all_symbols(model) -> set:
    syms = set(model.expression.free_symbols)
    syms |= set(model.kinematic_variables)
    for e in model.kinematic_variables.values():
        syms |= e.free_symbols
    syms |= {p for p in model.parameter_defaults if isinstance(p, sp.Symbol)}
    return {s for s in syms if isinstance(s, sp.Symbol)}


def expected_attributes(model, sigma):
    def x(e):
        return e.xreplace(sigma)

    return {
        "intensity": x(model.intensity),
        "amplitudes": [(k, x(v)) for k, v in model.amplitudes.items()],
        "components": {k: x(v) for k, v in model.components.items()},
        "kinematic_variables": {sigma.get(k, k): x(v) for k, v in model.kinematic_variables.items()},
        "parameter_defaults": [(sigma.get(k, k), v) for k, v in model.parameter_defaults.items()],
    }


def run_case(desc) -> Result:  # noqa: C901, PLR0911, PLR0912, PLR0914, PLR0915
    prepared = prepare(desc["reaction"], desc["config"])
    if prepared is None:
        return skip("no_transitions")
    try:
        model = formulate(prepared)
    except FormFactorContract:
        return skip("form_factor_needs_L")
    labels = [f"align={desc['config']['alignment']}", f"n_maps={len(desc['maps'])}"]
    nontrivial = False
    current = model
    previous_targets: list[str] = []
    for ops in desc["maps"]:
        params = sorted((p for p in current.parameter_defaults if isinstance(p, sp.Symbol)), key=lambda s: s.name)
        kins = sorted(current.kinematic_variables, key=lambda s: s.name)
        mapping, flags = resolve(ops, params, kins, previous_targets)
        previous_targets = [*previous_targets, *mapping.values()]
        labels += sorted(f"op:{f}" for f in flags if f"op:{f}" not in labels)
        before = model_digest(current)
        outside = "outside_documented_use" in flags
        renamed = under_test("rename_symbols", current.rename_symbols, mapping)
        if model_digest(current) != before:
            return violation("original_model_mutated", True, labels, mapping=mapping)
        if outside:
            current = renamed
            continue  # only "nothing raises" is asserted
        symbols = all_symbols(current)
        names = {s.name for s in symbols}
        sigma = {s: sp.Symbol(mapping[s.name], **s.assumptions0) for s in symbols if s.name in mapping}
        effective = {k: v for k, v in mapping.items() if k in names}
        if not effective:
            if not same_model(renamed, current):
                return violation("rename_of_unknown_names_changes_model", True, labels, mapping=mapping)
            current = renamed
            continue
        exp = expected_attributes(current, sigma)
        # how many attributes does a renamed symbol occur in?
        occurrences = 0
        for s in sigma:
            n_attr = sum([
                s in current.intensity.free_symbols or any(s in v.free_symbols for v in current.amplitudes.values()),
                any(s in v.free_symbols for v in current.components.values()),
                s in current.kinematic_variables or any(s in v.free_symbols for v in current.kinematic_variables.values()),
                s in current.parameter_defaults,
            ])
            occurrences = max(occurrences, n_attr)
        if occurrences >= 2 or "merge" in flags:
            nontrivial = True
        if renamed.intensity != exp["intensity"]:
            return violation("intensity_not_renamed_consistently", nontrivial, labels, mapping=effective)
        if list(renamed.amplitudes.keys()) != [k for k, _ in exp["amplitudes"]]:
            return violation("amplitude_keys_changed", nontrivial, labels, mapping=effective)
        for (k, v) in exp["amplitudes"]:
            if renamed.amplitudes[k] != v:
                return violation("amplitude_not_renamed_consistently", nontrivial, labels, mapping=effective, amplitude=str(k))
        if dict(renamed.components) != exp["components"]:
            bad = [k for k in exp["components"] if renamed.components.get(k) != exp["components"][k]]
            return violation("components_not_renamed_consistently", nontrivial, labels, mapping=effective, components=bad[:3])
        if dict(renamed.kinematic_variables) != exp["kinematic_variables"]:
            return violation(
                "kinematic_variables_not_renamed_consistently", nontrivial, labels, mapping=effective,
                got=sorted(map(str, renamed.kinematic_variables))[:8], want=sorted(map(str, exp["kinematic_variables"]))[:8],
            )
        want_defaults: dict = {}
        for k, v in exp["parameter_defaults"]:
            want_defaults.setdefault(k, []).append(v)
        got_defaults = dict(renamed.parameter_defaults.items())
        if set(got_defaults) != set(want_defaults):
            return violation(
                "parameter_keys_not_renamed_consistently", nontrivial, labels, mapping=effective,
                missing=sorted(str(k) for k in set(want_defaults) - set(got_defaults))[:4],
                unexpected=sorted(str(k) for k in set(got_defaults) - set(want_defaults))[:4],
            )
        for k, v in got_defaults.items():
            if v not in want_defaults[k]:
                return violation("parameter_default_changed", nontrivial, labels, parameter=str(k), got=v, want=want_defaults[k])
        # C01 still holds
        free = renamed.expression.free_symbols
        pset, kset = set(renamed.parameter_defaults), set(renamed.kinematic_variables)
        neither = sorted(str(s) for s in free if s not in pset and s not in kset)
        if neither:
            return violation("renamed_model_has_undefined_symbols", nontrivial, labels, symbols=neither[:6], mapping=effective)
        current = renamed

    # numeric: renamed model with carried-over values == original model (merged parameters at the merged value)
    if any("outside_documented_use" in lab for lab in labels):
        return ok(False, labels, note="outside documented use: only 'nothing raises' asserted")
    rng = np.random.default_rng(desc["point_seed"])
    f_new = under_test("lambdify_renamed", fast_scalar_function, current.expression)
    f_old = under_test("lambdify_original", fast_scalar_function, model.expression)
    values_new = draw_values(f_new.symbols, rng, 3)
    by_name_new = {s.name: v for s, v in values_new.items()}
    # total name map original -> final by replaying the maps on names
    def final_name(name):
        for ops_map in applied_maps:
            name = ops_map.get(name, name)
        return name

    applied_maps = []
    cur = model
    prev: list[str] = []
    for ops in desc["maps"]:
        params = sorted((p for p in cur.parameter_defaults if isinstance(p, sp.Symbol)), key=lambda s: s.name)
        kins = sorted(cur.kinematic_variables, key=lambda s: s.name)
        mapping, _ = resolve(ops, params, kins, prev)
        prev = [*prev, *mapping.values()]
        applied_maps.append(mapping)
        cur = cur.rename_symbols(mapping)
    values_old = {}
    for s in f_old.symbols:
        target = final_name(s.name)
        if target not in by_name_new:
            by_name_new[target] = draw_values([sp.Symbol(target)], rng, 3)[sp.Symbol(target)]
        values_old[s] = by_name_new[target]
    new = np.asarray(f_new({s: by_name_new[s.name] for s in f_new.symbols}), dtype=complex)
    old = np.asarray(f_old(values_old), dtype=complex)
    new, old = np.broadcast_to(new, (3,)), np.broadcast_to(old, (3,))
    finite = np.isfinite(old) & np.isfinite(new)
    if np.any(finite) and not np.all(np.abs(new[finite] - old[finite]) <= 1e-9 * np.maximum(1.0, np.abs(old[finite]))):
        return violation(
            "renamed_model_evaluates_differently", nontrivial, labels, got=[complex(x) for x in new], want=[complex(x) for x in old],
        )
    return ok(nontrivial, labels, n_symbols=len(f_old.symbols))
