"""C03 — parity partners carry exactly the parity sign of the flipped nodes.

Two oracles on one generated reaction with parity-conserving nodes:

1. *pairwise*: chains that share a coefficient symbol and whose daughter helicities are,
   node by node, equal or exactly reversed, differ in sign by the product of
   eta = P P1 P2 (-1)^(J-s1-s2) over exactly the reversed nodes (eta computed here from the
   particles' spins and parities);
2. *differential helicity <-> canonical*: the same descriptor is built in the canonical
   formalism; LS couplings a_n(L,S) are drawn per decay; every canonical coefficient is set
   to the product of its nodes' couplings; the helicity couplings
   h_n(l1,l2) = sum_LS a_n(L,S) CG(L0;S l|J l) CG(s1 l1; s2 -l2|S l) are computed with the
   reference Clebsch-Gordans; each helicity coefficient symbol must then admit *one* value
   that reproduces all chains sharing it, and with those values the two models must have
   equal intensities at every generated angle point.
"""

from __future__ import annotations

import numpy as np
import sympy as sp
from hypothesis import strategies as st

from vp.checks.c02 import draw_values
from vp.gen.config import DEFAULT_CONFIG, formulate, prepare
from vp.gen.reactions import children_of, parent_of, reaction_strategy, summarize
from vp.harness import Result, ok, skip, under_test, violation
from vp.ref import helicity as ref
from vp.ref.spin import cg

PROPERTY = "C03"
RULE = (
    "Hypothesis draws a synthetic reaction with >=1 parity-conserving node (1-3 nodes, 1-2 topologies, no identical"
    " particles), the naming flags insert_parent_helicities/insert_child_helicities, and a seed for LS couplings and 3"
    " angle points; the reaction is formulated in the helicity and in the canonical formalism. Non-trivial: >=2"
    " parity-conserving nodes with spinful daughters and at least one pair of chains that share a coefficient and"
    " differ in exactly one node. Distinct = descriptor hash."
)
ASSUMPTIONS = [
    "Clebsch-Gordan coefficients and Wigner-d from vp/ref/spin.py; eta from the generated particles' spins/parities",
    "canonical coefficients are taken as products of per-node LS couplings (the physical factorisation); ampform's"
    " canonical amplitude carries no sqrt((2L+1)/(2J+1)) factor, so none is used in the expansion",
    "with insert_child_helicities=False chains share coefficients for a reason other than helicity reversal: only"
    " 'no prefactor other than +1' is asserted there",
    "tolerance 1e-9 relative (double precision)",
]
BUDGET = {
    "quick": {"examples": 240, "shards": 16, "cap_s": 200, "shrink_calls": 30, "shrink_s": 120, "case_timeout_s": 90},
    "thorough": {"examples": 4000, "shards": 16, "cap_s": 2400, "shrink_calls": 120, "shrink_s": 300, "case_timeout_s": 300},
}
TOL = 1e-9


def strategy(tier):
    kw = dict(
        n_final=(2, 3, 3, 4), max_topos=2, formalisms=("helicity",), allow_identical=False,
        spin2_max=4 if tier == "quick" else 6, spin_k_max=2 if tier == "quick" else 3,
        max_transitions=32 if tier == "quick" else 96,
    )
    rs = reaction_strategy(**kw)

    def force_pc(args):
        r, twin = args
        # at least one parity-conserving node per topology; mostly all of them
        for td in r["topos"]:
            if not any(td["pc"]):
                td["pc"][0] = True
        if twin and r["n"] == 4:
            # X -> R R with R -> F0 F1 twice: the same two-body decay occurs at two nodes of a chain
            r = dict(r, twin=True)
            # the interesting twin: spinful R (so that R_{+1} R_{-1} exists) below a parity-conserving top node
            td0 = dict(r["topos"][0], pc=[True, True, True])
            td0["res"] = [dict(rd, k=max(rd["k"], 1)) for rd in td0["res"]]
            r["topos"] = [td0, *r["topos"][1:]]
            r["final"] = [dict(fd, m=max(fd["m"], 0.135) if fd["s2"] >= 2 else fd["m"]) for fd in r["final"]]
        return r

    return st.fixed_dictionaries({
        "reaction": st.tuples(rs, st.sampled_from([False, False, True])).map(force_pc),
        "all_pc": st.booleans(),
        "warm_start": st.booleans(),
        "parent_hel": st.sampled_from([False, False, True]),
        "child_hel": st.sampled_from([True, True, True, False]),
        "point_seed": st.integers(0, 2**31 - 1),
    })


def fixed_cases(tier):
    def fin(s2, p=1, m=0.5):
        return {"s2": s2, "P": p, "m": m, "latex": 0}

    # two parity-conserving nodes with eta = (-1, -1): single flips must get a sign (witness of F3)
    return [{
        "reaction": {
            "formalism": "helicity", "n": 3, "mu": 0.3, "final": [fin(1), fin(1), fin(0, -1)], "ident": [],
            "initial": {"k": 0, "P": 1, "eps": 0.1, "width": 0.0},
            "topos": [{"idx": 0, "perm": [0, 1, 2], "res": [{"k": 0, "P": -1, "eps": 0.1, "width": 0.1}], "pc": [True, True]}],
            "hel_init": 0, "hel_final": [0, 0, 0], "max_transitions": 64,
        },
        "all_pc": True, "parent_hel": False, "child_hel": True, "point_seed": 11,
    }] + [{
        # X(2^-) -> R R, R(1^-) -> F0 F1 twice: the two daughters of the top node carry the same name and different
        # helicities; R_{+1} R_{-1} and R_{-1} R_{+1} are parity partners with eta = -1
        "reaction": {
            "formalism": "helicity", "n": 4, "mu": 0.3, "final": [fin(0, -1, 0.135), fin(0, -1, 0.494), fin(0, -1, 0.135), fin(0, -1, 0.494)],
            "ident": [], "twin": True, "initial": {"k": 2, "P": -1, "eps": 0.3, "width": 0.0},
            "topos": [{"idx": 1, "perm": [0, 1, 2, 3], "res": [{"k": 1, "P": -1, "eps": 0.1, "width": 0.1}] * 2,
                       "pc": [True, True, True]}],
            "hel_init": 0, "hel_final": [0, 0, 0, 0], "max_transitions": 96,
        },
        "all_pc": True, "parent_hel": ph, "child_hel": True, "point_seed": 12,
    } for ph in (False, True)]


def _eta(t, node) -> int:
    par = parent_of(t.topology, node)
    a, b = children_of(t.topology, node)
    pp, p1, p2 = (int(t.states[x].particle.parity) for x in (par, a, b))
    j, s1, s2 = (t.states[x].particle.spin for x in (par, a, b))
    return pp * p1 * p2 * (-1) ** int(j - s1 - s2)


def _node_key(t, node):
    """Identifies a decay *in its topology*: the same particles may decay under another
    interaction (parity conserving or not) in another topology of the reaction."""
    from vp.gen.reactions import attached, intermediate_edges  # noqa: PLC0415

    par = parent_of(t.topology, node)
    a, b = children_of(t.topology, node)
    structure = tuple(sorted(attached(t.topology, e) for e in intermediate_edges(t.topology)))
    return (structure, t.states[par].particle.name, t.states[a].particle.name, t.states[b].particle.name)


def _evaluate(model, exprs, values_by_name, n_points):
    unfolded = [e.doit() for e in exprs]
    symbols = set()
    for e in unfolded:
        symbols |= e.free_symbols
    symbols = sorted(symbols, key=str)
    fn = sp.lambdify(symbols, unfolded, "numpy", cse=True)
    out = fn(*[values_by_name[s.name] for s in symbols])
    return [np.broadcast_to(np.asarray(o, dtype=complex), (n_points,)) for o in out]


def run_case(desc) -> Result:  # noqa: C901, PLR0911, PLR0912, PLR0914, PLR0915
    rdesc = dict(desc["reaction"])
    if desc["all_pc"]:
        rdesc["topos"] = [dict(td, pc=[True] * len(td["pc"])) for td in rdesc["topos"]]
    rdesc["formalism"] = "helicity"
    cfg_h = dict(DEFAULT_CONFIG, parent_hel=desc["parent_hel"], child_hel=desc["child_hel"])
    if desc.get("warm_start"):
        # the builder has already formulated a model with the default naming flags before the flags
        # of this case are set (coefficient names and parity signs must follow the *current* flags)
        prep_h = prepare(rdesc, dict(DEFAULT_CONFIG))
        if prep_h is None:
            return skip("no_transitions")
        formulate(prep_h)
        prep_h.builder.naming.insert_parent_helicities = bool(desc["parent_hel"])
        prep_h.builder.naming.insert_child_helicities = bool(desc["child_hel"])
        prep_h.config = cfg_h
    else:
        prep_h = prepare(rdesc, cfg_h)
    if prep_h is None:
        return skip("no_transitions")
    # the canonical twin must describe the same particles: freeze the (possibly clamped) spins
    built_h = prep_h.built
    reaction_h = prep_h.reaction
    info = summarize(built_h)
    labels = [f"n={rdesc['n']}", f"topologies={info['n_topologies']}"]
    if desc.get("warm_start"):
        labels.append("flags_set_after_a_first_formulate")
    if desc["parent_hel"]:
        labels.append("insert_parent_helicities")
    if not desc["child_hel"]:
        labels.append("no_child_helicities")
    model_h = formulate(prep_h)
    n_points = 3
    rng = np.random.default_rng(desc["point_seed"])

    transitions = list(reaction_h.transitions)
    naming = prep_h.builder.naming
    if ref.identical_groups(transitions[0]):
        labels.append("identical_particles(twin_resonances)")

    def name_of(t):
        return "A_{" + under_test("generate_amplitude_name", naming.generate_amplitude_name, t) + "}"

    comp_names = [name_of(t) for t in transitions]
    missing = [n for n in comp_names if n not in model_h.components]
    if missing:
        return violation("component_missing", True, labels, names=missing[:3])
    # chains that carry the same component name (symmetrised copies: names contain no edge ids)
    candidates: dict[str, list] = {}
    for t in transitions:
        for c in ref.symmetrized_copies(t):
            nm = name_of(c)
            if all(c != other for other in candidates.setdefault(nm, [])):
                candidates[nm].append(c)
    unique_names = sorted(set(comp_names))
    comps = [model_h.components[n] for n in unique_names]
    coeff_by_name = {}
    for n, c in zip(unique_names, comps):
        syms = sorted((x for x in c.free_symbols if x.name.startswith("C_")), key=str)
        if len(syms) != 1:
            return violation("coefficient_symbols", True, labels, component=n, got=[x.name for x in syms])
        coeff_by_name[n] = syms[0]
    coeff_of = [coeff_by_name[n] for n in comp_names]

    # numeric values: angles random, helicity coefficients 1 (to read off sigma_t * B_t)
    all_syms = set()
    for c in comps:
        all_syms |= c.free_symbols
    for chains in candidates.values():
        for t in chains:
            for node in t.topology.nodes:
                for nm in ref.angle_names(t.topology, children_of(t.topology, node)[0]):
                    all_syms.add(sp.Symbol(nm, real=True))
    values = {s.name: v for s, v in draw_values(all_syms, rng, n_points).items()}
    ones = dict(values)
    for s in set(coeff_of):
        ones[s.name] = np.ones(n_points, dtype=complex)
    comp_vals = dict(zip(unique_names, under_test("evaluate_components", _evaluate, model_h, comps, ones, n_points)))

    def pv(k):
        return {name: (v[k] if np.ndim(v) else v) for name, v in values.items()}

    sigma_by_name = {}
    for n in unique_names:
        got = comp_vals[n]
        verdict = None
        for chain in candidates[n]:
            want = np.array([ref.chain_amplitude(chain, pv(k), False) for k in range(n_points)])
            scale = np.maximum(1.0, np.abs(want))
            if float(np.max(np.abs(want))) < 1e-9 and float(np.max(np.abs(got))) < 1e-9:
                verdict = 0.0  # sign undetermined (vanishing chain at all points)
                break
            if np.all(np.abs(got - want) <= TOL * scale):
                verdict = 1.0
                break
            if np.all(np.abs(got + want) <= TOL * scale):
                verdict = -1.0
                break
        if verdict is None:
            want = np.array([ref.chain_amplitude(candidates[n][0], pv(k), False) for k in range(n_points)])
            return violation("chain_amplitude_differs", True, labels, component=n, n_chains_with_this_name=len(candidates[n]),
                             got=[complex(x) for x in got], want=[complex(x) for x in want])
        sigma_by_name[n] = verdict
    sigma = np.array([sigma_by_name[n] for n in comp_names])

    # ---- oracle 1: pairwise sign relation --------------------------------------------------
    by_symbol: dict = {}
    for i, s in enumerate(coeff_of):
        by_symbol.setdefault(s, []).append(i)
    n_pairs = n_single_flip = 0
    pc_spinful_nodes = 0
    t0 = transitions[0]
    for node in t0.topology.nodes:
        a, b = children_of(t0.topology, node)
        if t0.interactions[node].parity_prefactor is not None and (
            t0.states[a].particle.spin > 0 or t0.states[b].particle.spin > 0
        ):
            pc_spinful_nodes += 1
    for s, members in by_symbol.items():
        for x in range(len(members)):
            for y in range(x + 1, len(members)):
                i, j = members[x], members[y]
                ti, tj = transitions[i], transitions[j]
                if ti.topology != tj.topology or sigma[i] == 0 or sigma[j] == 0:
                    continue
                expected = 1
                comparable = True
                flipped = 0
                for node in ti.topology.nodes:
                    a, b = children_of(ti.topology, node)
                    hi = (ti.states[a].spin_projection, ti.states[b].spin_projection)
                    hj = (tj.states[a].spin_projection, tj.states[b].spin_projection)
                    if _node_key(ti, node) != _node_key(tj, node):
                        comparable = False
                        break
                    if hi == hj:
                        continue
                    if hi == (-hj[0], -hj[1]):
                        if ti.interactions[node].parity_prefactor is None:
                            comparable = False  # sharing at a node without parity conservation
                            break
                        expected *= _eta(ti, node)
                        flipped += 1
                    else:
                        comparable = False
                        break
                if not comparable:
                    continue
                if not desc["child_hel"]:
                    expected = 1  # no helicities in the names: nothing may get a prefactor
                n_pairs += 1
                if flipped == 1:
                    n_single_flip += 1
                if sigma[i] * sigma[j] != expected:
                    return violation(
                        "parity_partner_sign", True, labels, coefficient=s.name,
                        chains=[comp_names[i], comp_names[j]], flipped_nodes=flipped,
                        got=float(sigma[i] * sigma[j]), want=int(expected),
                    )
    if not desc["child_hel"] or desc["parent_hel"]:
        bad = [comp_names[i] for i in range(len(transitions)) if sigma[i] < 0]
        if not desc["child_hel"] and bad:
            return violation("prefactor_without_helicity_reversal", True, labels, chains=bad[:3])
    nontrivial = pc_spinful_nodes >= 2 and n_single_flip >= 1
    labels.append(f"pc_spinful_nodes={min(pc_spinful_nodes, 3)}")
    if n_single_flip:
        labels.append("single_node_flip_pairs")
    if not desc["child_hel"]:
        return ok(False, labels, n_pairs=n_pairs)
    if ref.identical_groups(transitions[0]):
        # identical resonances: exchange symmetry restricts the allowed (L, S) of X -> R R, which the
        # generator does not impose, so arbitrary LS couplings are not a physical canonical model;
        # the repeated sub-decay is what these cases are for (pairwise oracle above)
        return ok(nontrivial, [*labels, "differential_skipped:identical_resonances"], n_pairs=n_pairs, n_single_flip=n_single_flip)

    # ---- oracle 2: differential helicity <-> canonical ----------------------------------------
    rdesc_c = dict(built_h.desc)
    rdesc_c["formalism"] = "canonical-helicity"
    rdesc_c["max_transitions"] = 400
    # freeze spins as they were after clamping in the helicity build
    prep_c = prepare(_freeze_spins(rdesc_c, built_h), dict(DEFAULT_CONFIG))
    if prep_c is None:
        return ok(nontrivial, [*labels, "canonical_twin_empty"], n_pairs=n_pairs)
    if _particle_signature(prep_c.reaction) != _particle_signature(reaction_h):
        return skip("canonical_twin_differs_in_particles", labels)
    model_c = formulate(prep_c)
    trans_c = list(prep_c.reaction.transitions)
    naming_c = prep_c.builder.naming
    names_c = ["A_{" + naming_c.generate_amplitude_name(t) + "}" for t in trans_c]
    miss = [n for n in names_c if n not in model_c.components]
    if miss:
        return violation("canonical_component_missing", True, labels, names=miss[:3])
    # LS couplings per (decay particles, L, S)
    couplings: dict = {}

    def a_of(t, node):
        i = t.interactions[node]
        key = (*_node_key(t, node), int(i.l_magnitude), str(i.s_magnitude))
        if key not in couplings:
            couplings[key] = complex(rng.uniform(-1, 1), rng.uniform(-1, 1))
        return couplings[key]

    values_c = dict(values)
    coeff_c_values: dict = {}
    for t, name in zip(trans_c, names_c):
        comp = model_c.components[name]
        syms = sorted((x for x in comp.free_symbols if x.name.startswith("C_")), key=str)
        if len(syms) != 1:
            return violation("canonical_coefficient_symbols", True, labels, component=name, got=[x.name for x in syms])
        val = 1.0 + 0j
        for node in sorted(t.topology.nodes):
            val *= a_of(t, node)
        prev = coeff_c_values.get(syms[0])
        if prev is not None and abs(prev - val) > 1e-12:
            return violation("canonical_coefficient_shared_by_different_LS", True, labels, coefficient=syms[0].name)
        coeff_c_values[syms[0]] = val
    for s, v in coeff_c_values.items():
        values_c[s.name] = np.full(n_points, v)

    # helicity couplings from the LS expansion
    def h_of(t, node):
        par = parent_of(t.topology, node)
        a, b = children_of(t.topology, node)
        j = t.states[par].particle.spin
        s1, s2 = t.states[a].particle.spin, t.states[b].particle.spin
        l1, l2 = t.states[a].spin_projection, t.states[b].spin_projection
        lam = l1 - l2
        total = 0j
        for key, aval in couplings.items():
            if key[:4] != _node_key(t, node):
                continue
            ell, s = key[4], sp.Rational(key[5])
            from fractions import Fraction  # noqa: PLC0415

            sfrac = Fraction(int(s.p), int(s.q))
            total += aval * cg(ell, 0, sfrac, lam, j, lam) * cg(s1, l1, s2, -l2, sfrac, lam)
        return total

    required: dict = {}
    for i, t in enumerate(transitions):
        prod = 1.0 + 0j
        for node in sorted(t.topology.nodes):
            prod *= h_of(t, node)
        if sigma[i] == 0:
            continue
        need = prod / sigma[i]
        sym = coeff_of[i]
        if sym in required:
            if abs(required[sym][0] - need) > 1e-9 * max(1.0, abs(need)):
                return violation(
                    "shared_coefficient_needs_two_values", True, labels, coefficient=sym.name,
                    chains=[required[sym][1], comp_names[i]], values=[required[sym][0], need],
                )
        else:
            required[sym] = (need, comp_names[i])
    values_h = dict(values)
    for s in set(coeff_of):
        values_h[s.name] = np.full(n_points, required.get(s, (0j, ""))[0])

    expr_h = under_test("expression_h", lambda: model_h.expression)
    expr_c = under_test("expression_c", lambda: model_c.expression)
    for s in expr_c.free_symbols:
        if s.name not in values_c:
            values_c[s.name] = draw_values([s], rng, n_points)[s]
    for s in expr_h.free_symbols:
        if s.name not in values_h:
            values_h[s.name] = values_c.get(s.name, draw_values([s], rng, n_points)[s])
    (ih,) = under_test("evaluate_h", _evaluate, model_h, [expr_h], values_h, n_points)
    (ic,) = under_test("evaluate_c", _evaluate, model_c, [expr_c], values_c, n_points)
    scale = np.maximum(1.0, np.abs(ic))
    import os  # noqa: PLC0415

    if os.environ.get("VP_C03_DEBUG"):
        keys = [k for k in model_h.amplitudes if k in model_c.amplitudes]
        ah = _evaluate(model_h, [model_h.amplitudes[k] for k in keys], values_h, n_points)
        ac = _evaluate(model_c, [model_c.amplitudes[k] for k in keys], values_c, n_points)
        for k, x, y in zip(keys, ah, ac):
            print("AMP", k, complex(x[0]), complex(y[0]), "DIFF" if abs(x[0] - y[0]) > 1e-9 else "")
        print("REQUIRED", {str(k): v for k, v in required.items()})
    if not np.all(np.abs(ih - ic) <= 1e-8 * scale):
        return violation(
            "helicity_and_canonical_intensities_differ", True, labels,
            got=[complex(x) for x in ih], want=[complex(x) for x in ic],
        )
    labels.append("differential_done")

    # ---- oracle 3: canonical model whose coefficient names carry no LS (parity partners share a coefficient) ----
    # The Clebsch-Gordan coefficients carry the parity sign, so every chain of such a model must be its coefficient
    # times the reference canonical chain amplitude up to ONE sign per coefficient (a chain-dependent sign on top
    # of the CG product counts the parity factor twice).
    prep_n = prepare(_freeze_spins(rdesc_c, built_h), dict(DEFAULT_CONFIG, ls=False, child_hel=True,
                                                            parent_hel=desc["parent_hel"]))
    if prep_n is not None and _particle_signature(prep_n.reaction) == _particle_signature(reaction_h):
        model_n = formulate(prep_n)
        trans_n = list(prep_n.reaction.transitions)
        names_n = ["A_{" + prep_n.builder.naming.generate_amplitude_name(t) + "}" for t in trans_n]
        if len(set(names_n)) == len(names_n) and all(n in model_n.components for n in names_n):
            comps_n = [model_n.components[n] for n in names_n]
            coeff_n = []
            for n, c in zip(names_n, comps_n):
                syms = sorted((x for x in c.free_symbols if x.name.startswith("C_")), key=str)
                if len(syms) != 1:
                    return violation("canonical_coefficient_symbols", True, labels, component=n, got=[x.name for x in syms])
                coeff_n.append(syms[0])
            ones_n = dict(values)
            for c in comps_n:
                for x in c.free_symbols:
                    if x.name not in ones_n:
                        ones_n[x.name] = draw_values([x], rng, n_points)[x]
            for x in set(coeff_n):
                ones_n[x.name] = np.ones(n_points, dtype=complex)
            vals_n = under_test("evaluate_components_canonical", _evaluate, model_n, comps_n, ones_n, n_points)

            def pv_n(k):
                return {name: (v[k] if np.ndim(v) else v) for name, v in ones_n.items()}

            sign_of: dict = {}
            shared = 0
            for t, n, x, got in zip(trans_n, names_n, coeff_n, vals_n):
                want = np.array([ref.chain_amplitude(t, pv_n(k), True) for k in range(n_points)])
                scale = np.maximum(1.0, np.abs(want))
                if float(np.max(np.abs(want))) < 1e-9 and float(np.max(np.abs(got))) < 1e-9:
                    continue
                if np.all(np.abs(got - want) <= TOL * scale):
                    sg = 1
                elif np.all(np.abs(got + want) <= TOL * scale):
                    sg = -1
                else:
                    return violation("canonical_chain_amplitude_differs", True, labels, component=n,
                                     got=[complex(v) for v in got], want=[complex(v) for v in want])
                if x in sign_of:
                    shared += 1
                    if sign_of[x][0] != sg:
                        return violation("canonical_parity_factor_counted_twice", True, labels, coefficient=x.name,
                                         chains=[sign_of[x][1], n], signs=[sign_of[x][0], sg])
                else:
                    sign_of[x] = (sg, n)
            if shared:
                labels.append("canonical_without_ls_names:shared_coefficients")
    return ok(nontrivial, labels, n_pairs=n_pairs, n_single_flip=n_single_flip,
              n_helicity_chains=len(transitions), n_canonical_chains=len(trans_c), intensity=[float(x.real) for x in ic])


def _particle_signature(reaction):
    sig = set()
    for t in reaction.transitions:
        for i, s in t.states.items():
            sig.add((i, s.particle.name, str(s.particle.spin), int(s.particle.parity or 0), t.topology))
    return sig


def _freeze_spins(rdesc, built):
    """Descriptor whose spins equal those of an already built (possibly clamped) reaction."""
    import copy  # noqa: PLC0415

    from vp.gen.reactions import attached, intermediate_edges  # noqa: PLC0415

    rdesc = copy.deepcopy(rdesc)
    t0 = built.reaction.transitions[0]
    n = rdesc["n"]
    for i in range(n):
        rdesc["final"][i]["s2"] = int(2 * t0.states[i].particle.spin)
    (init_id,) = t0.topology.incoming_edge_ids
    rdesc["initial"]["k"] = int(t0.states[init_id].particle.spin)  # floor
    by_att = {}
    for t in built.reaction.transitions:
        for e in intermediate_edges(t.topology):
            by_att[attached(t.topology, e)] = int(t.states[e].particle.spin)
    from vp.gen.reactions import make_topology  # noqa: PLC0415

    for td in rdesc["topos"]:
        topo = make_topology(n, td["idx"], td["perm"])
        for pos, e in enumerate(intermediate_edges(topo)):
            td["res"][pos]["k"] = by_att.get(attached(topo, e), td["res"][pos]["k"])
    return rdesc
