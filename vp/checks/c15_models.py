"""C15, second family: whole ``HelicityModel`` objects (plugged into vp.checks.c15)."""

from __future__ import annotations

import pickle

import numpy as np
from hypothesis import strategies as st

from vp.checks import c15
from vp.harness import ok, skip, under_test, violation


def _strategy(tier):
    from vp.gen.config import config_strategy  # noqa: PLC0415
    from vp.gen.reactions import reaction_strategy  # noqa: PLC0415

    rs = reaction_strategy(
        n_final=(2, 3, 3, 4), max_topos=2, spin2_max=2, spin_k_max=1, max_transitions=16 if tier == "quick" else 48,
    )
    return rs.flatmap(
        lambda r: st.fixed_dictionaries({
            "reaction": st.just(r),
            "config": config_strategy(r),
            "protocol": st.integers(2, 5),
            "point_seed": st.integers(0, 2**31 - 1),
        })
    )


def model_fingerprint(model, extra) -> dict:
    """Digest + numeric values; runs in the parent and in the fresh interpreter."""
    import sympy as sp  # noqa: PLC0415

    from vp.checks.c02 import draw_values  # noqa: PLC0415
    from vp.evalmodel import fast_scalar_function  # noqa: PLC0415
    from vp.forkserver import model_digest  # noqa: PLC0415

    out = {"digest": model_digest(model)}
    if extra.get("numeric"):
        rng = np.random.default_rng(extra["point_seed"])
        f = fast_scalar_function(model.expression)
        values = draw_values(f.symbols, rng, 3)
        vals = np.broadcast_to(np.asarray(f(values), dtype=complex), (3,))
        out["numeric"] = [repr(complex(v)) for v in vals]
        kin = sorted(model.kinematic_variables, key=lambda s: s.name)
        out["kinematic_srepr"] = [sp.srepr(model.kinematic_variables[k])[:200] for k in kin[:3]]
    return out


def _run(desc):
    from vp.checks.c17 import same_model  # noqa: PLC0415
    from vp.gen.config import FormFactorContract, formulate, prepare  # noqa: PLC0415

    prepared = prepare(desc["reaction"], desc["config"])
    if prepared is None:
        return skip("no_transitions", ["family:model"])
    try:
        model = formulate(prepared)
    except FormFactorContract:
        return skip("form_factor_needs_L", ["family:model"])
    labels = ["family:model", f"protocol={desc['protocol']}", f"align={desc['config']['alignment']}"]
    has_attr = bool(desc["config"]["dynamics"])
    aligned = desc["config"]["alignment"] != "none"
    if has_attr:
        labels.append("dynamics")
    nontrivial = has_attr or aligned
    blob = under_test("pickle.dumps", pickle.dumps, model, desc["protocol"])
    loaded = under_test("pickle.loads", pickle.loads, blob)
    if type(loaded) is not type(model):
        return violation("loaded_type_differs", nontrivial, labels, got=type(loaded).__name__)
    if not same_model(loaded, model) or loaded.reaction_info != model.reaction_info:
        bad = [
            name for name in ("intensity", "amplitudes", "parameter_defaults", "kinematic_variables", "components", "reaction_info")
            if (getattr(loaded, name) != getattr(model, name) if name in {"intensity", "reaction_info"}
                else list(getattr(loaded, name).items()) != list(getattr(model, name).items()))
        ]
        return violation("loaded_model_differs", nontrivial, labels, attributes=bad)
    if loaded != model:
        return violation("loaded_model_not_equal", nontrivial, labels)
    numeric = len(prepared.reaction.transitions) <= 12 and desc["config"]["alignment"] != "axisangle"
    extra = {"numeric": numeric, "point_seed": desc["point_seed"]}
    want = under_test("fingerprint_original", model_fingerprint, model, extra)
    got_same = under_test("fingerprint_loaded", model_fingerprint, loaded, extra)
    if got_same != want and _numeric_close(want, got_same):
        got_same = dict(got_same, numeric=want.get("numeric"))
    if got_same != want:
        diff = [k for k in want if want[k] != got_same.get(k)]
        return violation("loaded_model_fingerprint_differs", nontrivial, labels, where="same_process", keys=diff)
    answer = c15.fresh_process_fingerprint(blob, "vp.checks.c15_models:model_fingerprint", extra)
    if "error" in answer:
        return violation("fresh_process_load_fails", nontrivial, labels, error=str(answer["error"])[:300])
    got_fresh = answer.get("result", answer)
    if got_fresh != want and _numeric_close(want, got_fresh):
        got_fresh = dict(got_fresh, numeric=want.get("numeric"))  # equal up to summation order (1e-12)
        labels.append("numeric_equal_up_to_rounding")
    if got_fresh != want:
        diff = [k for k in want if want[k] != got_fresh.get(k)]
        detail = {}
        if "digest" in diff:
            detail = {k: "differs" for k in want["digest"] if want["digest"][k] != got_fresh["digest"].get(k)}
        return violation("loaded_model_fingerprint_differs", nontrivial, labels, where="fresh_process", keys=diff, digest=detail)
    if numeric:
        labels.append("numeric_compared")
    return ok(nontrivial, labels, n_transitions=len(prepared.reaction.transitions))


def _numeric_close(want, got) -> bool:
    a, b = want.get("numeric"), got.get("numeric")
    if a is None or b is None or len(a) != len(b):
        return False
    for x, y in zip(a, b):
        u, v = complex(x), complex(y)
        if not (abs(u - v) <= 1e-12 * max(1.0, abs(u)) or (u != u and v != v)):
            return False
    return True


def _fixed(tier):
    del tier
    return []


c15.register_family("model", strategy=_strategy, run=_run, fixed=_fixed, weight=1)
