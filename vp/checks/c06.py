"""C06 — formulate() is a pure function of (reaction, configuration).

Hypothesis rule-based state machine.  State: two builders on one generated reaction and a
third builder on a second reaction.  Rules configure a builder (every field of G3), assign
dynamics, permute the registered topologies, or formulate.  After every ``formulate`` the
model digest must equal (i) the digest of an immediate second ``formulate`` on the same
builder and (ii) the digest of the same (reaction, configuration) formulated in a *fresh*
process image under PYTHONHASHSEED 0, 1, 4242 and random (``vp.forkserver``).
"""

from __future__ import annotations

import atexit
import json
import os
import subprocess
import sys

from hypothesis import strategies as st
from hypothesis.stateful import RuleBasedStateMachine, initialize, rule

from vp import harness
from vp.forkserver import model_digest
from vp.gen.config import BUILDER_NAMES, DEFAULT_CONFIG, apply_dynamics, make_builder, set_alignment
from vp.gen.reactions import build_reaction, reaction_strategy
from vp.harness import Result, ok, skip, violation

PROPERTY = "C06"
RULE = (
    "Rule-based state machine: 2 builders on a generated reaction A (3-body, relabelled so that DPD is legal; thorough:"
    " also 4-body) + 1 builder on a generated reaction B; rules: set stable ids / scalar initial mass / helicity couplings"
    " / alignment / naming flags, assign dynamics (by name, particle or node), permutate_registered_topologies,"
    " formulate. Oracle after each formulate: same digest when formulated again and when the same (reaction,"
    " configuration) is formulated in a forked fresh process image under PYTHONHASHSEED 0, 1, 4242, random. Non-trivial:"
    " the checked formulate is preceded by >= 2 formulations on the same reaction with other configurations. Distinct ="
    " hash of (reactions, operation list)."
)
ASSUMPTIONS = [
    "a fresh process image = a fork of a process that has only imported ampform/qrules (no formulate call before)",
    "the configuration of a builder is the result of its operation history: last value per field, dynamics assignments"
    " replayed in order, permutation of topologies is sticky",
    "models from the fresh process are transported by pickle and compared attribute-wise with == in the checking"
    " process (intensity, ordered item lists of the four mappings, reaction_info); the two formulations inside one"
    " process are additionally compared by an srepr digest",
]
BUDGET = {
    "quick": {"examples": 560, "shards": 16, "cap_s": 150, "shrink_calls": 40, "shrink_s": 120, "steps": 16, "case_timeout_s": 120},
    "thorough": {"examples": 1600, "shards": 16, "cap_s": 2400, "shrink_calls": 100, "shrink_s": 300, "steps": 22, "case_timeout_s": 600},
}
HASHSEEDS = ["0", "1", "4242", "random"]
ALIGNMENTS_3 = ["none", "axisangle", "dpd1", "dpd2", "dpd3"]
ALIGNMENTS_N = ["none", "axisangle"]


# ----------------------------------------------------------------------- fork servers
_SERVERS: dict[str, subprocess.Popen] = {}
_MEMO: dict[str, dict] = {}


def _server(hashseed: str) -> subprocess.Popen:
    proc = _SERVERS.get(hashseed)
    if proc is not None and proc.poll() is None:
        return proc
    env = dict(os.environ)
    env["PYTHONHASHSEED"] = hashseed
    env["PYTHONPATH"] = os.pathsep.join([str(harness.ROOT), harness.REPO_SRC])
    proc = subprocess.Popen(  # noqa: S603
        [sys.executable, "-m", "vp.forkserver"], stdin=subprocess.PIPE, stdout=subprocess.PIPE,
        stderr=subprocess.DEVNULL, env=env, cwd=str(harness.ROOT), text=True,
    )
    hello = json.loads(proc.stdout.readline())
    if not hello.get("ready"):
        msg = f"fork server did not start: {hello}"
        raise RuntimeError(msg)
    _SERVERS[hashseed] = proc
    return proc


@atexit.register
def _stop_servers() -> None:
    for proc in _SERVERS.values():
        try:
            proc.stdin.close()
            proc.terminate()
        except Exception:  # noqa: BLE001, S110
            pass


def fresh_model(rdesc, config, relabel, hashseed: str) -> dict:
    """{"model": HelicityModel} formulated in a fresh process image and transported by pickle
    (so that it is compared with ``==`` in this process: sympy's canonical argument order of
    Add/Mul is process-specific, a string comparison of srepr would demand more than equality),
    or {"error": ...}."""
    import base64  # noqa: PLC0415
    import pickle  # noqa: PLC0415

    key = harness.canonical([rdesc, config, relabel, hashseed])
    if key not in _MEMO:
        proc = _server(hashseed)
        proc.stdin.write(json.dumps({"rdesc": rdesc, "config": config, "relabel": relabel, "want": "pickle"}) + "\n")
        proc.stdin.flush()
        answer = json.loads(proc.stdout.readline())
        if "pickle" in answer:
            answer = {"model": pickle.loads(base64.b64decode(answer["pickle"]))}  # noqa: S301
        _MEMO[key] = answer
    return _MEMO[key]


def compare_models(a, b) -> dict:
    """Attribute -> "order" | "content" for every attribute in which the models differ."""
    out = {}
    if a.intensity != b.intensity:
        out["intensity"] = "content"
    for name in ("amplitudes", "parameter_defaults", "kinematic_variables", "components"):
        la, lb = list(getattr(a, name).items()), list(getattr(b, name).items())
        if la != lb:
            out[name] = "order" if dict(la) == dict(lb) else "content"
    if a.reaction_info != b.reaction_info:
        out["reaction_info"] = "content"
    return out


# ----------------------------------------------------------------------- history executor
class History:
    """Executes operations on real builders and keeps the model of their configuration."""

    def __init__(self, r_a, r_b) -> None:
        self.desc = {"rA": r_a, "rB": r_b, "ops": []}
        self.result: Result | None = None
        self.labels: set[str] = set()
        self.nontrivial = False
        self.checked = 0
        self.builders = []
        self.dead = False
        # builder 0: reaction A relabelled to ids 1..3 (DPD's precondition; alignments none/DPD),
        # builder 1: reaction A as it is (none/axis-angle), builder 2: reaction B (none/axis-angle)
        for pos, rdesc in enumerate((r_a, r_a, r_b)):
            built = build_reaction(rdesc)
            if built is None:
                self.dead = True
                return
            relabel = pos == 0 and rdesc["n"] == 3
            reaction, builder = make_builder(built, relabel)
            self.builders.append({
                "rdesc": built.desc, "relabel": relabel, "builder": builder, "reaction": reaction,
                # (no axis-angle cost clamp: the fresh process must build the same reaction)
                "config": dict(DEFAULT_CONFIG, axisangle_spin1_budget=99), "offset": 1 if relabel else 0,
                "formulated": [],  # canonical configs already formulated on this *reaction*
            })

    def n(self, b) -> int:
        return self.builders[b]["rdesc"]["n"]

    def apply(self, op) -> None:  # noqa: C901, PLR0912
        if self.result is not None or self.dead:
            return
        self.desc["ops"].append(op)
        kind, b = op[0], op[1]
        st_ = self.builders[b]
        builder, cfg = st_["builder"], st_["config"]
        if kind == "set":
            field, value = op[2], op[3]
            if field == "alignment":
                if st_["relabel"]:  # axis-angle assumes the initial state id -1
                    value = "none" if value == "axisangle" else value
                elif value.startswith("dpd"):
                    value = "axisangle"
                set_alignment(builder, value)
                self.labels.add(f"align={value}")
            elif field == "stable":
                ids = None if value is None else sorted({i % self.n(b) for i in value})
                builder.config.stable_final_state_ids = None if ids is None else [i + st_["offset"] for i in ids]
                value = ids
                self.labels.add("stable_ids")
            elif field == "scalar_initial":
                builder.config.scalar_initial_state_mass = bool(value)
            elif field == "helicity_couplings":
                builder.config.use_helicity_couplings = bool(value)
            elif field == "parent_hel":
                builder.naming.insert_parent_helicities = bool(value)
            elif field == "child_hel":
                builder.naming.insert_child_helicities = bool(value)
            cfg[field] = value
        elif kind == "assign":
            assignment = [op[2], op[3], op[4]]
            apply_dynamics(builder, st_["reaction"], [assignment], [])
            cfg["dynamics"] = [*cfg["dynamics"], assignment]
            self.labels.add("dynamics")
        elif kind == "permutate":
            builder.adapter.permutate_registered_topologies()
            cfg["permutate"] = True
            self.labels.add("permutated")
        elif kind == "formulate":
            self.check_formulate(b)

    def check_formulate(self, b) -> None:
        st_ = self.builders[b]
        cfg = json.loads(json.dumps(st_["config"]))
        key = harness.canonical(cfg)
        others = [k for k in st_["formulated"] if k != key]
        nontrivial = len(set(others)) >= 2
        self.nontrivial = self.nontrivial or nontrivial
        try:
            m1 = st_["builder"].formulate()
            m2 = st_["builder"].formulate()
        except ValueError as exc:
            if "Angular momentum is not defined" not in str(exc):
                self.result = violation("raises:formulate", nontrivial, sorted(self.labels), message=str(exc)[:200])
                return
            m1 = m2 = None
            self.labels.add("form_factor_contract")
        st_["formulated"].append(key)
        self.checked += 1
        if m1 is not None:
            diff = compare_models(m1, m2)
            if diff or model_digest(m1) != model_digest(m2):
                self.result = violation(
                    "formulate_twice_differs", nontrivial, sorted(self.labels), differing=diff or {"digest": "content"}, builder=b
                )
                return
        for hs in HASHSEEDS:
            fresh = fresh_model(st_["rdesc"], cfg, st_["relabel"], hs)
            if "error" in fresh:
                if "Angular momentum is not defined" in fresh["error"] and m1 is None:
                    continue
                self.result = violation(
                    "fresh_process_fails", nontrivial, sorted(self.labels), hashseed=hs, error=fresh["error"][:200],
                    in_process_ok=m1 is not None,
                )
                return
            if m1 is None:
                self.result = violation("fresh_process_succeeds_where_builder_raised", nontrivial, sorted(self.labels), hashseed=hs)
                return
            diff = compare_models(m1, fresh["model"])
            if diff:
                # F4 (C07): with >= 4 final states and several registered topologies (permuted, symmetrised), one angle name is
                # defined by several topologies with different values, and which definition wins depends
                # on the iteration order of the adapter's set of topologies
                only_colliding_angles = False
                if set(diff) == {"kinematic_variables"} and diff["kinematic_variables"] == "content":
                    ka, kb = dict(m1.kinematic_variables), dict(fresh["model"].kinematic_variables)
                    differing = [k for k in ka if k not in kb or ka[k] != kb[k]] + [k for k in kb if k not in ka]
                    only_colliding_angles = bool(
                        st_["rdesc"]["n"] >= 4 and differing
                        and all(k.name.startswith(("phi_", "theta_")) for k in differing)
                    )
                self.result = violation(
                    "differs_from_fresh_process", nontrivial, sorted(self.labels), hashseed=hs, builder=b,
                    differing=diff, order_only=all(v == "order" for v in diff.values()),
                    preceded_by_other_configurations=len(set(others)),
                    only_colliding_angle_values_of_permuted_adapter=only_colliding_angles,
                )
                return

    def verdict(self) -> Result:
        if self.dead:
            return skip("no_transitions")
        if self.result is not None:
            return self.result
        return ok(self.nontrivial, sorted(self.labels), formulations_checked=self.checked, n_ops=len(self.desc["ops"]))


def _diff(a: dict, b: dict) -> dict:
    out = {}
    for k in a:
        if a.get(k) == b.get(k):
            continue
        if isinstance(a[k], dict) and isinstance(b.get(k), dict) and a[k].get("unordered") == b[k].get("unordered"):
            out[k] = "order"
        else:
            out[k] = "content"
    return out


# ----------------------------------------------------------------------- Hypothesis machine
def _reaction_a(tier):
    ns = (3, 3, 3, 4) if tier == "thorough" else (3,)
    base = reaction_strategy(n_final=ns, max_topos=3, spin2_max=2, spin_k_max=1, max_transitions=24, allow_identical=True)

    def all_parity_conserving(args):
        r, force = args
        if force:  # coefficient sharing between parity partners makes the model sensitive to naming state
            r = dict(r, topos=[dict(td, pc=[True] * len(td["pc"])) for td in r["topos"]])
        return r

    return st.tuples(base, st.booleans()).map(all_parity_conserving)


def _reaction_b(tier):
    del tier
    return reaction_strategy(n_final=(2, 3), max_topos=2, spin2_max=2, spin_k_max=1, max_transitions=16)


def machine(tier, report, gate):
    class PurityMachine(RuleBasedStateMachine):
        def __init__(self) -> None:
            super().__init__()
            self.active = gate()
            self.h: History | None = None

        @initialize(r_a=_reaction_a(tier), r_b=_reaction_b(tier))
        def init(self, r_a, r_b):
            if self.active:
                self.h = History(r_a, r_b)

        def do(self, op):
            if self.active and self.h is not None:
                self.h.apply(op)

        @rule(b=st.integers(0, 2), align=st.sampled_from(ALIGNMENTS_3))
        def set_alignment(self, b, align):
            self.do(["set", b, "alignment", align])

        @rule(b=st.integers(0, 2), ids=st.one_of(st.none(), st.lists(st.integers(0, 3), max_size=3)))
        def set_stable(self, b, ids):
            self.do(["set", b, "stable", ids])

        @rule(b=st.integers(0, 2), field=st.sampled_from(["scalar_initial", "helicity_couplings", "parent_hel", "child_hel"]), value=st.booleans())
        def set_flag(self, b, field, value):
            self.do(["set", b, field, value])

        @rule(
            b=st.integers(0, 2),
            first=st.sampled_from(["parent_hel", "parent_hel", "child_hel", "child_hel", "helicity_couplings", "scalar_initial"]),
            second=st.sampled_from(["parent_hel", "parent_hel", "child_hel", "child_hel", "helicity_couplings", "scalar_initial"]),
            second_value=st.booleans(),
            restore_second=st.booleans(),
        )
        def detour(self, b, first, second, second_value, restore_second):
            """Flip a flag, touch another one, flip the first back: a detour through other
            configurations must not leave traces."""
            if not (self.active and self.h is not None and not self.h.dead):
                return
            cfg = self.h.builders[b]["config"]

            def current(field):
                value = cfg[field]
                if value is None:  # child_hel default of the formalism
                    value = self.h.builders[b]["rdesc"]["formalism"] == "helicity"
                return bool(value)

            v1, v2 = current(first), current(second)
            self.do(["set", b, first, not v1])
            if second != first:
                self.do(["set", b, second, second_value])  # may re-assign the current value
            self.do(["set", b, first, v1])
            if second != first and restore_second and second_value != v2:
                self.do(["set", b, second, v2])
            self.do(["formulate", b])

        @rule(b=st.integers(0, 2), kind=st.sampled_from(["name", "particle", "node"]), tgt=st.integers(0, 7),
              bidx=st.integers(0, len(BUILDER_NAMES) - 1))
        def assign(self, b, kind, tgt, bidx):
            self.last_assign = (b, kind, tgt)
            self.do(["assign", b, kind, tgt, bidx])

        @rule(bidx=st.integers(0, len(BUILDER_NAMES) - 1), between=st.booleans())
        def replace_lineshape(self, bidx, between):
            """The most recent assignment once more with another builder (optionally after a formulate, which may
            raise the documented ValueError): nothing of the replaced lineshape may survive."""
            last = getattr(self, "last_assign", None)
            if last is None:
                return
            b, kind, tgt = last
            if between:
                self.do(["formulate", b])
            self.do(["assign", b, kind, tgt, bidx])
            self.do(["formulate", b])

        @rule(b=st.integers(0, 2))
        def permutate(self, b):
            self.do(["permutate", b])
        @rule(b=st.integers(0, 2))
        def formulate(self, b):
            self.do(["formulate", b])
        @rule(b=st.integers(0, 1))
        def formulate_a(self, b):
            self.do(["formulate", b])
        @rule(b=st.integers(0, 1), align=st.sampled_from(ALIGNMENTS_3))
        def realign_and_formulate_a(self, b, align):
            self.do(["set", b, "alignment", align])
            self.do(["formulate", b])

        def teardown(self):
            if self.active and self.h is not None:
                desc = dict(self.h.desc)
                desc["_result"] = self.h.verdict()
                report(desc)

    return PurityMachine


def run_case(desc) -> Result:
    h = History(desc["rA"], desc["rB"])
    for op in desc["ops"]:
        h.apply(op)
    return h.verdict()


def fixed_cases(tier):
    def fin(s2, m):
        return {"s2": s2, "P": 1, "m": m, "latex": 0}

    res = {"k": 0, "P": 1, "eps": 0.1, "width": 0.1}
    r_a = {
        "formalism": "helicity", "n": 3, "mu": 0.3, "final": [fin(1, 0.938), fin(0, 0.494), fin(0, 0.135)], "ident": [],
        "initial": {"k": 0, "P": 1, "eps": 0.1, "width": 0.0},
        "topos": [
            {"idx": 0, "perm": [0, 1, 2], "res": [dict(res, k=1)], "pc": [False, False]},
            {"idx": 0, "perm": [2, 1, 0], "res": [res], "pc": [False, False]},
        ],
        "hel_init": 0, "hel_final": [0, 0, 0], "max_transitions": 24,
    }
    r_b = dict(r_a, n=2, final=[fin(0, 0.135), fin(0, 0.135)], topos=[{"idx": 0, "perm": [0, 1], "res": [], "pc": [False]}])
    # witness of F6: DPD + stable ids formulated first leaks into the later model without stable ids
    f6 = {"rA": r_a, "rB": r_b, "ops": [
        ["set", 0, "alignment", "dpd1"], ["set", 0, "stable", [0, 1, 2]], ["formulate", 0],
        ["set", 1, "alignment", "dpd1"], ["formulate", 1], ["set", 0, "stable", None], ["formulate", 0],
    ]}
    # witness of F6b: order of kinematic variables with permuted topologies under different hash seeds
    f6b = {"rA": r_a, "rB": r_b, "ops": [["permutate", 0], ["formulate", 0], ["formulate", 1]]}
    # a lineshape replaced by another one on the same resonance: nothing of the first may survive in the model --
    # neither when the first formulate() raised (form factor without L on the half-integer resonance: documented
    # ValueError) nor when the first builder shares helper state with the second (form factor, constant width)
    replaced = [
        {"rA": r_a, "rB": r_b, "ops": [["assign", 0, "name", tgt, first], ["formulate", 0], ["assign", 0, "name", tgt, 2],
                                       ["formulate", 0], ["formulate", 1]]}
        for first in (3, 6) for tgt in (0, 1)
    ]
    replaced.append({"rA": r_a, "rB": r_b, "ops": [
        ["assign", 0, "name", 0, 3], ["assign", 0, "name", 1, 3], ["formulate", 0],  # raises on the half-integer resonance
        ["assign", 0, "name", 0, 2], ["assign", 0, "name", 1, 2], ["formulate", 0], ["formulate", 1],
    ]})
    return [f6, f6b, *replaced]
