"""C14 — unevaluated expressions obey substitution, equality and folding laws.

Generator (G5, `vp.gen.exprs`): the expression classes are found by introspecting every
module of the ``ampform`` package; a per-class recipe table supplies the *kind* of every
argument (scalar, angular momentum, four-momentum array, event-wise scalar, matrix array,
``name``/``phsp_factor`` attributes ...), classes without a recipe get the generic scalar
recipe, and arguments are themselves generated library instances up to depth 3.  On top of
the instance Hypothesis draws a substitution map (keys: the instance's own leaf symbols or a
symbol that does not occur; values: fresh symbol | number | small expression | another symbol
of the instance), ``subs`` or ``xreplace``, a *pair variant* (identical | other class | one
sympy argument changed | one non-sympy attribute changed) and a nested node used as an
expression key.

Oracles (only what the statement claims):

1. ``e.xreplace(m).doit()`` equals ``e.doit().xreplace(m)`` (same for ``subs`` with values free
   of the keys): structural identity (a digest that does not use the library's ``__eq__``),
   otherwise the value at 3 fixed points (exact substitution + 25-digit evalf for scalar trees,
   ``lambdify`` on a fixed 3-event numpy batch for array-valued trees), tolerance 1e-10 relative.
   ``doit()`` must leave no foldable library class behind (that is what unfolding means).
   Replacing an *expression key* (a nested library instance or the instance itself) must give
   the instance rebuilt with that argument replaced (sympy's documented ``xreplace`` contract;
   this is where ``rule[self]`` of the library's own ``_xreplace`` is exercised).  The same holds
   for a *non-SymPy attribute value as key* (``{PhaseSpaceFactor: PhaseSpaceFactorAbs}``, the
   feature pinned by the repository's ``test_xreplace_with_non_sympy_attributes``): every node
   carrying the old value is rebuilt with the new one, whether the rule contains only that key,
   also a symbol that does not occur, or also a symbol that does.
   A difference that appears only when a *symbolic angular momentum* is replaced by an integer
   (``BlattWeisskopfSquared.evaluate`` switches from the Hankel-function form to a cached
   polynomial that is only equal for z >= 0) is reported under its own kind
   ``does_not_commute_symbolic_angular_momentum``.
   Two *sibling* arguments that differ in one place only (``Kallen(e, e', x)``) must unfold as
   well, to the same structure as ``Kallen(e.doit(), e'.doit(), x)`` where decidable (finding
   F14c: SymPy orders the terms through ``_hashable_content()``, which has to order a class name
   against a function).
2. ``e == e'`` and ``hash(e) == hash(e')`` iff class, sympy arguments and non-sympy attributes
   are equal, over pairs that are identical or differ in exactly one of those.
3. every node whose class has only sympy fields: ``node.func(*node.args) == node``.
4. code generation (numpy printer, cse on and off): if every library class in the folded tree
   has a numpy printer method, ``lambdify(e)(x) == lambdify(e.doit())(x)``; otherwise sympy's
   ``PrintMethodNotImplementedError`` on the folded form is the documented contract and only
   ``lambdify(e.doit())`` (cse on == cse off) is required to work.  Classes that offer
   ``as_explicit()`` (``MinkowskiMetric`` — whose ``doit`` is the identity by design —, the boost
   and rotation matrices) are additionally compared element-wise with ``lambdify`` of the
   explicit 4x4 matrix.
"""

from __future__ import annotations

import functools
import os
import warnings

from hypothesis import strategies as st

from vp.gen import exprs as G
G.SYMBOLIC_POOL_VALUES = True  # PoolSum pools may hold the symbols y, z (they are arguments like any other)
G.INCLUDE_CLOSURES = True  # closures as non-sympy attributes (equality/hash must tell them apart)
from vp.harness import Result, UnderTestError, ok, skip, under_test, violation

PROPERTY = "C14"
RULE = (
    "Hypothesis draws (class uniformly over the classes found by introspection, argument trees"
    " by kind up to 3 drawn levels of nested library classes (plus the wrappers a kind forces, e.g."
    " ArraySize/ThreeMomentum: label depth<=5), substitution map, subs|xreplace, pair variant,"
    " expression key); each shard takes its own slice of the classes as top-level class."
    " Non-trivial: an argument of the instance is itself an instance of a"
    " library class, or a non-sympy attribute has a non-default value. Distinct = distinct"
    " descriptor hash."
)
ASSUMPTIONS = [
    "sympy's own subs/xreplace/doit/evalf/lambdify are trusted on expressions that contain no ampform class",
    "substitution values respect the assumptions of the symbol they replace (positive symbols are only replaced by positive values); bound symbols (PoolSum indices, integration/summation variables) are never used as values",
    "numeric fallback: 3 fixed points, relative tolerance 1e-10 on max(1,|a|,|b|); points where either side is not finite are not compared and are counted (label numeric:nonfinite)",
    "numeric input for array-valued classes: physical (time-like) four-momenta, |beta|<0.9, positive scalars",
    "numeric comparisons allow, per element, 10x the change of the value under a 1e-12 relative perturbation of the input (condition estimate; label codegen:ill_conditioned) and leave out events where an ordered comparison gets a complex/nan operand or a log/root is taken on its branch cut (label codegen:events_masked_...): the value of generated code is not defined there",
    "arguments are typed real/complex by recipe: only Kallen, Kibble and BreakupMomentumSquared receive complex-valued nested arguments; sympy's own failures on exotic nestings (RecursionError inside Piecewise, 'Invalid comparison of non-real') are skipped and counted",
    "a folded tree that contains a plain sympy Sum (_SymbolicSum) is not lambdified in folded form, and an unfolded form that keeps a symbolic-limit Sum is not lambdified at all (sympy-only printing; sympy's cse does not respect bound variables)",
    "hash(e) != hash(e') is not asserted when the two differing arguments themselves collide under Python's hash (label hash:python_level_collision)",
    "a folded tree containing a library class without numpy printer method may raise PrintMethodNotImplementedError from lambdify: documented sympy behaviour, treated as the contract",
    "as_explicit() comparison is restricted to the physical domain above",
]
BUDGET = {
    "quick": {"examples": 2000, "shards": 16, "cap_s": 80, "shrink_calls": 150, "shrink_s": 30, "case_timeout_s": 10},
    "thorough": {"examples": 40000, "shards": 16, "cap_s": 1500, "shrink_calls": 1000, "shrink_s": 240, "case_timeout_s": 90},
}

TOL = 1e-10
MAX_NODES_CODEGEN = 6000  # unfolded expression size above which code generation is skipped (labelled)
MAX_NODES_NUMERIC = 20000
MAX_NODES_UNFOLDED = 12000  # above: only the equality / rebuild / expression-key laws are checked

HOWS = ["fresh", "fresh", "number", "number", "expr", "merge", "miss"]


# ----------------------------------------------------------------------- strategy
def shard_env(k, tier):
    """Each shard takes its own slice of the discovered classes as top-level class (nested
    arguments are drawn from all classes in every shard)."""
    return {"VP_GEN_EXPRS_PART": str(k)}


def _class_slice(tier):
    part = os.environ.get("VP_GEN_EXPRS_PART")
    parts = int(os.environ.get("VP_SHARDS", BUDGET[tier]["shards"]))
    return G.top_level_names(int(part), parts) if part is not None else None


def strategy(tier):
    return st.fixed_dictionaries({
        "expr": G.instances(3, 2500 if tier == "quick" else 8000, _class_slice(tier)),
        "subs": st.lists(
            st.fixed_dictionaries({
                "key": st.integers(0, 11),
                "how": st.sampled_from(HOWS),
                "i": st.integers(0, 7),
                "j": st.integers(0, 7),
            }),
            min_size=1,
            max_size=3,
        ),
        "mode": st.integers(0, 999).map(lambda i: ["xreplace", "subs"][i % 2]),
        "pair": st.fixed_dictionaries({
            "op": st.sampled_from(["same", "class", "arg", "arg", "attr", "attr"]),
            "i": st.integers(0, 23),
            "j": st.integers(0, 7),
        }),
        "selfkey": st.integers(0, 7),
        # keys of the substitution map that are equal to, but not the same objects as, the symbols in the
        # expression (sympy's symbol cache is a bounded LRU cache; here it is cleared explicitly)
        "fresh_key_objects": st.sampled_from([False, False, False, True]),
    })


def fixed_cases(tier):
    p = ["arr", "p0"]
    edw = [
        "cls", "EnergyDependentWidth",
        [["cls", "PhaseSpaceFactor", [["sym", "s_p"], ["sym", "m_p"], ["sym", "w_p"]], {"name": None}],
         ["sym", "m_p"], ["sym", "g_n"], ["sym", "m_p"], ["sym", "w_p"], ["int", 1], ["num", "1"]],
        {"phsp_factor": "PhaseSpaceFactorAbs", "name": "N"},
    ]
    base = {"subs": [{"key": 0, "how": "fresh", "i": 0, "j": 0}], "mode": "xreplace",
            "pair": {"op": "attr", "i": 0, "j": 0}, "selfkey": 1}
    return [
        {"inventory": 1},
        # witnesses of F14 (dataclasses.astuple recursion in subs/xreplace)
        {**base, "expr": edw},
        {**base, "expr": edw, "mode": "subs"},
        # two widths that differ in the phase-space factor only (a class, a function) below one Kallen: unfolding
        # used to raise TypeError ('>' between str and function) when SymPy ordered the product of the two
        {**base, "expr": ["cls", "Kallen", [edw, [*edw[:3], {"phsp_factor": "chew_mandelstam_s_wave", "name": "N"}], ["sym", "x"]], {}]},
        {**base, "expr": edw, "pair": {"op": "attr", "i": 0, "j": 1}},
        {**base, "expr": edw, "pair": {"op": "attr", "i": 0, "j": 3}},
        # a direct argument of a class with non-SymPy attributes replaced by zero (falsy in sympy) with subs
        {**base, "expr": edw, "mode": "subs", "subs": [{"key": 0, "how": "number", "i": 0, "j": 5}]},
        {**base, "expr": [*edw[:2], [*edw[2][:5], ["lsym", "L"], edw[2][6]], edw[3]], "mode": "subs",
         "subs": [{"key": 4, "how": "number", "i": 0, "j": 0}]},
        # xreplace with an attribute value as key: alone / beside an absent symbol (selfkey 1 above) / a present one
        {**base, "expr": edw, "selfkey": 0},
        {**base, "expr": edw, "selfkey": 2},
        {**base, "expr": ["cls", "BreakupMomentumSquared",
                          [["cls", "Kallen", [["sym", "x"], ["sym", "y"], ["sym", "z"]], {}], ["sym", "m_p"], ["sym", "w_p"]],
                          {"name": "q^2_x"}]},
        {**base, "expr": ["cls", "BoostMatrix", [["cls", "NegativeMomentum", [p], {}]], {}]},
        {**base, "expr": ["cls", "EuclideanNorm", [["cls", "ThreeMomentum", [p], {}]], {}]},
        # two closures of one factory as non-sympy attribute: equal module and qualified name, different
        # functions (equality / hash must tell them apart)
        {**base, "pair": {"op": "attr", "i": 1, "j": 0},
         "expr": ["cls", "EnergyDependentWidth",
                  [["sym", "s_p"], ["sym", "m_p"], ["sym", "g_n"], ["sym", "m_p"], ["sym", "w_p"], ["int", 1], ["num", "1"]],
                  {"phsp_factor": "closure_phsp_1", "name": None}]},
        # witness: ComplexSqrt prints un-parenthesised code when assumptions decide the sign
        {**base, "expr": ["cls", "Kallen", [["cls", "ComplexSqrt", [["mul", ["num", "2"], ["sym", "s_p"]]], {}],
                                            ["sym", "y"], ["sym", "z"]], {}]},
        # witness: cse pulls t**2 (bound integration variable) out of the integrand
        {**base, "expr": ["cls", "UnevaluatableIntegral",
                          [["div", ["add", ["pow", ["idx", "t"], 2], ["sym", "x"]], ["add", ["pow", ["idx", "t"], 2], ["num", "1"]]],
                           ["num", "0"], ["num", "1"]], {"var": "t"}]},
        # witnesses of the symbolic-angular-momentum finding (integer L substituted before / after unfolding)
        {**base, "expr": ["cls", "BlattWeisskopfSquared", [["sym", "x"], ["lsym", "L"]], {}],
         "subs": [{"key": 1, "how": "number", "i": 1, "j": 0}], "pair": {"op": "arg", "i": 0, "j": 0}},
        {**base, "expr": ["cls", "FormFactor", [["sym", "s_p"], ["sym", "m_p"], ["sym", "w_p"], ["lsym", "L"], ["num", "1"]], {}],
         "subs": [{"key": 3, "how": "number", "i": 1, "j": 0}], "mode": "subs", "pair": {"op": "arg", "i": 3, "j": 0}},
        # a substitution that makes two symbolic pool values equal (y -> z) or equal to a literal one (-> 2, 1/2 ...):
        # the folded sum keeps one term per pool entry, like the unfolded one (every key x every way x both modes)
        *[
            {**base, "expr": ["cls", "PoolSum", [["mul", ["pow", ["sym", "x"], 2], ["add", ["idx", "i"], ["sym", "x"]]]],
                              {"indices": [["i", pool]]}],
             "subs": [{"key": key, "how": how, "i": i, "j": j}], "mode": mode}
            for pool in (["$y", "$z", "2"], ["$y", "1/2", "$z"])
            for key in (1, 2) for how, i, j in (("merge", 0, 0), ("merge", 0, 1), ("number", 1, 0), ("number", 3, 0))
            for mode in ("subs", "xreplace")
        ],
    ]


# ----------------------------------------------------------------------- helpers
def _tolerated(name: str) -> bool:
    """Development aid: ``VP_C14_TOLERATE=symbolic_L,integral_cse,complexsqrt_code`` turns the named
    suspected library findings into labels so that one can look behind them. Default: nothing is
    tolerated (the proper mechanism is an entry in known_findings.jsonl)."""
    return name in os.environ.get("VP_C14_TOLERATE", "").split(",")


class _SkipCase(Exception):
    """A limitation of sympy itself (not of the code under test) makes the case undecidable."""


def _ut(label, fn, *args, **kwargs):
    """`under_test`, except that a RecursionError raised inside sympy's Piecewise machinery
    (``Piecewise.__new__`` -> ``as_set`` -> ``periodicity`` -> ``decompogen`` on univariate
    conditions, reached by nesting Piecewise-valued classes inside relational conditions) is a
    sympy limitation: the case is skipped and counted. So is sympy's TypeError on ordering nan or
    non-real numbers."""
    import traceback  # noqa: PLC0415

    try:
        return under_test(label, fn, *args, allowed=(RecursionError, TypeError), **kwargs)
    except RecursionError as exc:
        files = {fr.filename for fr in traceback.extract_tb(exc.__traceback__)}
        if any(f.endswith("sympy/functions/elementary/piecewise.py") for f in files):
            raise _SkipCase("sympy_RecursionError_in_Piecewise") from exc
        raise UnderTestError(label, exc) from exc
    except TypeError as exc:
        # sympy refuses to order nan / non-real numbers ("Invalid NaN comparison", "Invalid comparison
        # of non-real ..."): a substituted number made an argument singular -- outside the domain
        if "Invalid NaN comparison" in str(exc) or "Invalid comparison of non-real" in str(exc):
            raise _SkipCase("sympy_invalid_comparison_of_nan_or_nonreal") from exc
        raise UnderTestError(label, exc) from exc


def _sp():
    import sympy as sp  # noqa: PLC0415

    return sp


def _np():
    import numpy as np  # noqa: PLC0415

    return np


@functools.lru_cache(maxsize=None)
def _foldable(cls) -> bool:
    """Classes that `doit()` must unfold: library classes with an ``evaluate`` method and an
    own ``doit`` (the decorator's or PoolSum's); `_SymbolicSum` keeps symbolic limits by design."""
    sp = _sp()
    if not G.is_library_class(cls) or cls.__name__ == "_SymbolicSum":
        return False
    return callable(getattr(cls, "evaluate", None)) and cls.doit is not sp.Basic.doit


@functools.lru_cache(maxsize=None)
def _printable(cls) -> bool:
    """Does sympy's NumPyPrinter find a print method for this class (``_numpycode`` or a
    ``_print_<ClassName>`` for a class of the MRO below Expr/Basic)?"""
    sp = _sp()
    from sympy.printing.numpy import NumPyPrinter  # noqa: PLC0415

    if hasattr(cls, "_numpycode") and not getattr(cls._numpycode, "__isabstractmethod__", False):  # noqa: SLF001
        return True
    for base in cls.__mro__:
        if base in {sp.Expr, sp.Basic, sp.AtomicExpr, sp.Atom, object}:
            break
        if hasattr(NumPyPrinter, f"_print_{base.__name__}"):
            return True
    return False


def _unprintable_classes(expr) -> list[str]:
    return sorted({type(n).__name__ for n in G.library_nodes(expr) if not _printable(type(n))})


def _is_pmnie(exc: BaseException) -> bool:
    from sympy.printing.codeprinter import PrintMethodNotImplementedError  # noqa: PLC0415

    return isinstance(exc, PrintMethodNotImplementedError)


def _merge_names(*dicts):
    out: dict[str, set] = {"sym": set(), "lsym": set(), "arr": set(), "idx": set()}
    for d in dicts:
        for k, v in d.items():
            out[k].update(v)
    return {k: sorted(v) for k, v in out.items()}


def _lambdify_eval(expr, names, data, *, cse: bool):
    sp, np = _sp(), _np()
    order = [*names["sym"], *names["lsym"], *names["arr"]]
    args = [sp.Symbol(n) for n in order]
    # lambdify matches arguments by printed name; assumptions do not matter here
    with warnings.catch_warnings():
        warnings.simplefilter("ignore")
        fn = sp.lambdify(args, expr, "numpy", cse=cse)
        with np.errstate(all="ignore"):
            return fn(*[data[n] for n in order])


def _close(a, b, slack=None):
    """(equal?, n_finite_compared, max_rel_err, shapes). `slack` is an element-wise absolute
    allowance (condition estimate: the change of the value under a 1e-12 relative
    perturbation of the input), added to TOL * max(1, |a|, |b|)."""
    np = _np()
    try:
        a = np.asarray(a, dtype=complex)
        b = np.asarray(b, dtype=complex)
    except (TypeError, ValueError):
        return False, 0, float("inf"), "not an array"
    if a.shape != b.shape:
        try:
            a, b = np.broadcast_arrays(a, b)
        except ValueError:
            return False, 0, float("inf"), f"{a.shape} vs {b.shape}"
    fin = np.isfinite(a) & np.isfinite(b)
    judged = np.ones(a.shape, dtype=bool)  # elements whose allowance is infinite (pure rounding noise) are not judged
    if slack is not None:
        try:
            judged = np.isfinite(np.broadcast_to(slack, a.shape))
        except ValueError:
            pass
    same_nonfinite = bool(np.all((np.isfinite(a) == np.isfinite(b)) | ~judged))
    if not fin.any():
        return same_nonfinite, 0, 0.0, str(a.shape)
    with np.errstate(all="ignore"):
        scale = np.maximum(1.0, np.maximum(np.abs(a), np.abs(b)))
    allowed = TOL * scale
    if slack is not None:
        try:
            allowed = allowed + 10 * np.broadcast_to(slack, a.shape)
        except ValueError:
            pass
    comparable = fin & np.isfinite(allowed)
    if not comparable.any():
        return True, 0, 0.0, str(a.shape)
    with np.errstate(all="ignore"):
        excess = np.where(comparable, np.abs(a - b) - allowed, -1.0)
        rel = np.where(comparable, np.abs(a - b) / scale, 0.0)
    err = float(np.nanmax(rel))
    masked_everywhere_nonfinite = bool(np.all((np.isfinite(a) == np.isfinite(b)) | ~np.isfinite(allowed)))
    return bool(np.nanmax(excess) <= 0 and masked_everywhere_nonfinite), int(comparable.sum()), err, str(a.shape)


def _perturbed(data, variant=0):
    np = _np()
    out = {}
    eps = (1e-12, 1e-12, 1e-10)[variant % 3]
    for i, (key, val) in enumerate(sorted(data.items())):
        if isinstance(val, np.ndarray):
            rng = np.random.default_rng(1000 + i + 7919 * variant)
            out[key] = val * (1 + eps * rng.choice([-1.0, 1.0], size=val.shape))
        else:
            out[key] = val
    return out


def _ordering_operands(expr):
    """(ordering operands, branch-cut operands): both sides of every relational and the argument
    of every ComplexSqrt (which prints as a Piecewise on ``x < 0``) decide a branch by *ordering*;
    arguments of ``log`` and bases of non-integer powers have a *branch cut* on the negative axis."""
    sp = _sp()
    from sympy.core.relational import Relational  # noqa: PLC0415

    ordering, branch = [], []
    for node in sp.preorder_traversal(expr):
        if isinstance(node, Relational):
            ordering.append(node.lhs - node.rhs)
        elif type(node).__name__ == "ComplexSqrt" and node.args:
            ordering.append(node.args[0])
        elif isinstance(node, sp.log):
            branch.append(node.args[0])
        elif isinstance(node, sp.Pow) and not node.exp.is_integer and not node.base.is_number:
            branch.append(node.base)
    return ordering, branch


def _hazard_mask(expr, names, data, n_events):
    """Events at which the value of the generated code is not well defined (input outside the
    domain of the classes): an ordered comparison receives a complex or nan operand (numpy orders
    complex numbers lexicographically and sympy's cse may rewrite ``-a < 0`` as ``a > 0``), or a
    logarithm / root is taken exactly on its branch cut (the sign of a floating-point zero
    imaginary part, which depends on the order of operations, then decides between +-i*pi)."""
    np = _np()
    ordering, branch = _ordering_operands(expr)
    mask = np.zeros(n_events, dtype=bool)
    # atan2(y, x) of two values that are both rounding residues (|x|+|y| tiny compared with the
    # inputs they were computed from, e.g. the azimuth of a momentum boosted into its own rest
    # frame) is noise: any evaluation order gives another angle
    sp = _sp()
    atan2_nodes = [n for n in sp.preorder_traversal(expr) if isinstance(n, sp.atan2)]
    if atan2_nodes:
        try:
            parts = _lambdify_eval([a for n in atan2_nodes for a in n.args], names, data, cse=False)
            scale = max((float(np.max(np.abs(v))) for v in data.values() if isinstance(v, np.ndarray)), default=1.0)
            for k in range(len(atan2_nodes)):
                y, x = (np.asarray(parts[2 * k], dtype=complex), np.asarray(parts[2 * k + 1], dtype=complex))
                bad = (np.abs(x) + np.abs(y)) <= 1e-9 * max(scale, 1e-300)
                if bad.ndim == 0 or bad.shape[0] != n_events:
                    if bad.any():
                        mask[:] = True
                else:
                    mask |= bad.reshape(n_events, -1).any(axis=1)
        except Exception:  # noqa: BLE001
            return np.ones(n_events, dtype=bool)
    if not ordering and not branch:
        return mask
    try:
        vals = _lambdify_eval([*ordering, *branch], names, data, cse=False)
    except Exception:  # noqa: BLE001
        return np.ones(n_events, dtype=bool)
    for i, v in enumerate(vals):
        v = np.asarray(v, dtype=complex)  # noqa: PLW2901
        tiny_imag = np.abs(v.imag) <= 1e-13 * np.maximum(1.0, np.abs(v))
        if i < len(ordering):
            bad = ~np.isfinite(v) | ~tiny_imag
        else:
            bad = ~np.isfinite(v) | (tiny_imag & (v.real <= 0))
        if bad.ndim == 0 or bad.shape[0] != n_events:
            if bad.any():
                mask[:] = True
        else:
            mask |= bad.reshape(n_events, -1).any(axis=1)
    return mask


def _condition_slack(expr, names, data, reference, n_events=3, reference_without_cse=None):
    """Element-wise allowance: |f(x(1+1e-12)) - f(x)| (inf where not finite, inf at events with
    an ordering hazard); returns (slack, ill_conditioned?, n_hazard_events)"""
    np = _np()
    try:
        ref = np.asarray(reference, dtype=complex)
        slack = None
        # several independent perturbations: a value that is pure rounding noise (e.g. the azimuth
        # of a momentum boosted into its own rest frame) can move little under a single one by chance
        for variant in range(3):
            moved = np.asarray(_lambdify_eval(expr, names, _perturbed(data, variant), cse=True), dtype=complex)
            with np.errstate(all="ignore"):
                one = np.abs(moved - ref)
            one = np.where(np.isfinite(one), one, np.inf)
            slack = one if slack is None else np.maximum(slack, one)
            if reference_without_cse is not None and variant < 2:  # noqa: PLR2004
                # the two code variants round differently: a product 0 * huge is exactly 0 along one route and
                # noise along the other, so the response of *both* routes counts
                ref_b = np.asarray(reference_without_cse, dtype=complex)
                moved_b = np.asarray(_lambdify_eval(expr, names, _perturbed(data, variant), cse=False), dtype=complex)
                with np.errstate(all="ignore"):
                    other = np.abs(moved_b - ref_b)
                slack = np.maximum(slack, np.where(np.isfinite(other), other, np.inf))
        scale = np.maximum(1.0, np.abs(ref))
        ill = bool(np.any(slack > TOL * np.where(np.isfinite(scale), scale, 1.0)))
        mask = _hazard_mask(expr, names, data, n_events)
        if mask.any():
            if slack.ndim >= 1 and slack.shape[0] == n_events:
                slack = slack.copy()
                slack[mask] = np.inf
            else:
                slack = np.full(slack.shape, np.inf)
    except Exception:  # noqa: BLE001
        return None, False, 0
    return slack, ill, int(mask.sum())


def _evalf_points(expr, names):
    """Values at the 3 fixed exact points (None where not finite / not numeric)."""
    sp = _sp()
    out = []
    for i in range(3):
        point = G.exact_point(names, i)
        try:
            val = expr.xreplace(point).doit()
            num = sp.N(val, 25)
            c = complex(num)
        except Exception:  # noqa: BLE001  (sympy itself on a numeric expression: zoo, nan, ...)
            out.append(None)
            continue
        if c != c or abs(c) == float("inf"):  # noqa: PLR0124
            out.append(None)
        else:
            out.append(c)
    return out


def numeric_same(a, b):
    """Compare two *unfolded* expressions by value. Returns (verdict, info) with verdict in
    {True, False, None}; None = nothing comparable (all points non-finite)."""
    names = _merge_names(G.leaf_names_of_expr(a), G.leaf_names_of_expr(b))
    if names["idx"]:
        return None, {"why": f"unbound index symbols {names['idx']}"}
    if names["arr"]:
        data = G.batch_data(names, seed=20240614, n_events=3)
        try:
            va = _lambdify_eval(a, names, data, cse=True)
            vb = _lambdify_eval(b, names, data, cse=True)
        except Exception as exc:  # noqa: BLE001  (both sides are sympy-only trees: not a verdict)
            return None, {"why": f"lambdify of an unfolded side failed: {type(exc).__name__}: {exc}"[:200]}
        slack, ill, _ = _condition_slack(a, names, data, va)
        same, n_fin, err, shape = _close(va, vb, slack)
        if n_fin == 0:
            return None, {"why": "no finite value", "shape": shape}
        return same, {"route": "numpy", "max_rel_err": err, "compared": n_fin, "shape": shape, "ill_conditioned": ill}
    va = _evalf_points(a, names)
    vb = _evalf_points(b, names)
    compared, worst = 0, 0.0
    for x, y in zip(va, vb):
        if x is None or y is None:
            continue
        compared += 1
        worst = max(worst, abs(x - y) / max(1.0, abs(x), abs(y)))
    if compared == 0:
        return None, {"why": "no finite point", "lhs": str(va), "rhs": str(vb)}
    return worst <= TOL, {"route": "evalf", "max_rel_err": worst, "compared": compared,
                          "lhs": [str(v) for v in va], "rhs": [str(v) for v in vb]}


# ----------------------------------------------------------------------- substitution maps
def _expr_value(tag: str, i: int):
    """Small expression that keeps the sign assumptions of `tag` (positive combinations)."""
    suffix = {"": "", "real": "_r", "nonnegative": "_n", "positive": "_p"}[tag]
    a, b = ["sym", f"u{i % 3}{suffix}"], ["sym", f"u{(i + 1) % 3}{suffix}"]
    forms = [
        ["add", a, ["num", "1"]],
        ["mul", ["num", "2"], a],
        ["mul", a, b],
        ["add", a, b],
        ["pow", a, 2],
        ["add", ["mul", ["num", "1/2"], a], ["num", "3/2"]],
    ]
    return forms[i % len(forms)]


def resolve_map(entries, tree, mode):
    """[(key leaf descriptor, value descriptor)], labels. Keys: leaf symbols of the tree
    (bound names excluded) or a symbol that does not occur."""
    names = G.leaves(tree)
    keys = [["sym", n] for n in names["sym"]] + [["lsym", n] for n in names["lsym"]] + [["arr", n] for n in names["arr"]]
    pairs, labels, used = [], [], set()
    for ent in entries:
        how, i, j = ent["how"], ent["i"], ent["j"]
        if how == "miss" or not keys:
            key = [["sym", "nohit"], ["arr", "pnohit"]][i % 2]
            value = ["sym", "u0"] if key[0] == "sym" else ["arr", "k0"]
            how = "miss"
        elif keys[ent["key"] % len(keys)][0] == "arr" and how == "number":
            key, how = keys[ent["key"] % len(keys)], "fresh"
            value = ["arr", f"k{i % 2}"]
        else:
            key = keys[ent["key"] % len(keys)]
            kind, name = key
            if kind == "sym":
                tag = G.symbol_tag(name)
                suffix = {"": "", "real": "_r", "nonnegative": "_n", "positive": "_p"}[tag]
                if how == "fresh":
                    value = ["sym", f"u{i % 3}{suffix}"]
                elif how == "number":
                    value = [["num", G.NUMS[i % len(G.NUMS)]], ["flt", G.FLOATS[i % len(G.FLOATS)]]][j % 2]
                    if tag in {"", "real"} and j >= 6:  # noqa: PLR2004
                        value = ["neg", value]
                    if tag != "positive" and j == 5:  # noqa: PLR2004
                        value, how = ["int", 0], "zero"  # sympy's zero is falsy: `new or old` idioms keep the old argument
                elif how == "expr":
                    value = _expr_value(tag, i)
                else:  # merge with another scalar symbol of the instance with at least these assumptions
                    others = [
                        n for n in names["sym"]
                        if n != name and G.ASSUMPTION_RANK[G.symbol_tag(n)] >= G.ASSUMPTION_RANK[tag]
                        and (n in G.BETA_SYMBOLS) == (name in G.BETA_SYMBOLS)
                    ]
                    value = ["sym", others[j % len(others)]] if others else ["sym", f"u{i % 3}{suffix}"]
            elif kind == "lsym":
                if how == "number":
                    value = ["int", i % 4]
                elif how == "merge" and len(names["lsym"]) > 1:
                    value = ["lsym", [n for n in names["lsym"] if n != name][j % (len(names["lsym"]) - 1)]]
                elif how == "expr":
                    value = ["add", ["lsym", "Lf"], ["int", 1]]
                else:
                    value = ["lsym", "Lf"]
            else:  # array symbol
                others = [n for n in names["arr"] if n != name]
                if how == "merge" and others:
                    value = ["arr", others[j % len(others)]]
                elif how == "expr":
                    value = [
                        ["cls", "ArraySum", [["arr", "k0"], ["arr", "k1"]], {}],
                        ["cls", "NegativeMomentum", [["arr", "k0"]], {}],
                    ][i % 2]
                else:
                    value = ["arr", f"k{i % 2}"]
        if tuple(key) in used:
            continue
        used.add(tuple(key))
        pairs.append((key, value, how))
    # subs is sequential: keep only values free of every key
    key_names = {k[1] for k, _, _ in pairs}
    if mode == "subs":
        pairs = [
            (k, v, h) for k, v, h in pairs
            if not ({n for lst in G.leaves(v).values() for n in lst} & key_names)
        ]
    for k, _, h in pairs:
        labels.append(f"map:{h}:{k[0]}")
    return pairs, labels


# ----------------------------------------------------------------------- pair variants
def _fresh_like(arg_tree):
    """A leaf that differs from `arg_tree` and is of the same broad type."""
    op = arg_tree[0]
    if op == "int":
        return ["int", arg_tree[1] + 1]
    if op in {"num", "flt"}:
        return ["num", "11/13"]
    if op == "lsym":
        return ["lsym", "Lnew"]
    if op == "arr":
        return ["arr", "pnew"]
    if op == "cls":
        returns = None
        rec = G.recipes().get(arg_tree[1])
        if rec is not None:
            returns = rec.returns if rec.source != "custom" else {v[2] for v in rec.variants}
        arrayish = {"p4", "v3", "mat"}
        if (isinstance(returns, str) and returns in arrayish) or (isinstance(returns, set) and returns <= arrayish):
            return ["arr", "pnew"]
    return ["sym", "q_new"]


def make_variant(tree, pair):
    """(variant tree, what differs: None|'class'|'arg'|'attr', detail, (old, new) argument trees)"""
    op, i, j = pair["op"], pair["i"], pair["j"]
    nodes = G.class_nodes(tree)
    if op == "same":
        return tree, None, "identical (keyword construction)", None
    if op == "class":
        cands = []
        for path, node in nodes:
            key = G.signature_key(node[1]) if node[1] in G.recipes() else None
            if key is None:
                continue
            partners = [n for n in G.recipes() if n != node[1] and G.signature_key(n) == key]
            if partners:
                cands.append((path, node, partners))
        if cands:
            path, node, partners = cands[i % len(cands)]
            new = [node[0], partners[j % len(partners)], node[2], node[3]]
            return G.replace_at(tree, path, new), "class", f"{node[1]}->{new[1]} at {list(path)}", None
        op = "arg"
    if op == "attr":
        cands = [(p, n, k) for p, n in nodes for k in sorted(n[3]) if k in {"name", "phsp_factor"}]
        if cands:
            path, node, key = cands[i % len(cands)]
            pool = G.NAMES if key == "name" else sorted(G.phsp_factors())
            others = [v for v in pool if v != node[3][key]]
            # the nearest neighbour first: another closure of the same factory (equal module and
            # qualified name) is the value that a name-based hash cannot tell apart
            if str(node[3][key]).startswith("closure_phsp_"):
                others = [v for v in others if str(v).startswith("closure_phsp_")] + others
            new = [node[0], node[1], node[2], {**node[3], key: others[j % len(others)] if j % 3 else others[0]}]
            return G.replace_at(tree, path, new), "attr", f"{node[1]}.{key} at {list(path)}", None
        op = "arg"
    cands = [(p, k) for p, n in nodes for k in range(len(n[2]))]
    path, k = cands[i % len(cands)]
    arg_path = (*path, 2, k)
    old = G.get_at(tree, arg_path)
    new = _fresh_like(old)
    return G.replace_at(tree, arg_path, new), "arg", f"argument {k} of node at {list(path)}", (old, new)


# ----------------------------------------------------------------------- sub-checks
def check_commute(e, d, tree, desc, labels, nontrivial):
    sp = _sp()
    mode = desc["mode"]
    pairs, map_labels = resolve_map(desc["subs"], tree, mode)
    labels.extend(map_labels)
    if not pairs:
        labels.append("map:empty")
        return None
    if desc.get("fresh_key_objects"):
        from sympy.core.cache import clear_cache  # noqa: PLC0415

        clear_cache()
        labels.append("map:key_objects_equal_but_not_identical")
    mapping = {G.build(k): G.build(v, under_test) for k, v, _ in pairs}
    if mode == "xreplace":
        lhs = _ut("xreplace", e.xreplace, mapping)
        rhs = _ut("doit.xreplace", d.xreplace, mapping)
    else:
        lhs = _ut("subs", e.subs, mapping)
        rhs = _ut("doit.subs", d.subs, mapping)
    detail = {"mode": mode, "mapping": {str(k): str(v) for k, v in mapping.items()}}
    # a replaced symbol is gone (values are free of the keys; a key that is a bound index of a sum is not free before)
    def _free(x) -> set:
        try:
            return set(x.free_symbols)
        except Exception:  # noqa: BLE001  (sympy's Basic.free_symbols on a node that keeps a Python object in .args)
            return set()

    value_symbols = set().union(*[_free(v) for v in mapping.values()])
    before, after = _free(e), _free(lhs)
    survivors = sorted(str(k) for k in mapping if k in before and k not in value_symbols and k in after)
    if survivors:
        return violation(f"{mode}_leaves_replaced_symbol_behind", nontrivial, labels, **detail, survivors=survivors, got=str(lhs)[:300])
    lhs_d = _ut(f"{mode}.doit", lhs.doit)
    if any(h == "zero" for _, _, h in pairs):
        singular = {sp.zoo, sp.nan, sp.oo, -sp.oo}
        if any(n in singular for x in (lhs_d, rhs) for n in sp.preorder_traversal(x) if isinstance(n, sp.Basic) and not n.args):
            labels.append("commute:zero_substitution_singular")  # 0/0 before or after cancellation: not a statement about the code
            return None
    all_miss = all(h == "miss" for _, _, h in pairs)
    if all_miss and G.digest(lhs) != G.digest(e):
        return violation(f"{mode}_miss_changes_object", nontrivial, labels, **detail, got=str(lhs)[:300])
    if G.digest(lhs_d) == G.digest(rhs):
        labels.append("commute:structural")
        return None
    if lhs_d == rhs:
        labels.append("commute:sympy_eq")
        return None
    # the right-hand side may still hold folded *values* of the map (p -> NegativeMomentum(k)) or a
    # sum whose limits became numeric: unfolding is value preserving, so unfold before comparing
    rhs = _ut(f"doit.{mode}.doit", rhs.doit)
    if G.digest(lhs_d) == G.digest(rhs) or lhs_d == rhs:
        labels.append("commute:structural_after_unfolding_rhs")
        return None
    if max(G.count_nodes(lhs_d, MAX_NODES_NUMERIC), G.count_nodes(rhs, MAX_NODES_NUMERIC)) >= MAX_NODES_NUMERIC:
        labels.append("commute:too_large_for_numeric")
        return None
    verdict, info = numeric_same(lhs_d, rhs)
    if verdict is None:
        labels.append("commute:numeric_inconclusive")
        return None
    if verdict:
        labels.append("commute:numeric_fallback")
        if info.get("compared", 3) < 3:  # noqa: PLR2004
            labels.append("numeric:nonfinite")
        return None
    symbolic_l = any(k[0] == "lsym" and v[0] == "int" for k, v, _ in pairs) and any(
        isinstance(n, sp.Sum) for n in sp.preorder_traversal(d)
    )
    if symbolic_l and _tolerated("symbolic_L"):
        labels.append("TOLERATED_BY_ENV:symbolic_L")
        return None
    kind = "does_not_commute_symbolic_angular_momentum" if symbolic_l else f"{mode}_does_not_commute"
    return violation(
        kind, nontrivial, labels, **detail, **info,
        symbolic_angular_momentum_replaced_by_integer=bool(symbolic_l),
        lhs_subs_then_doit=str(lhs_d)[:400], rhs_doit_then_subs=str(rhs)[:400],
    )


def check_expression_key(e, tree, desc, labels, nontrivial):
    """xreplace with a library instance as key == rebuild with that argument replaced."""
    nodes = G.class_nodes(tree)
    path, node = nodes[desc["selfkey"] % len(nodes)]
    key_obj = G.build(node, under_test)
    key_digest = G.digest(key_obj)
    value_tree = _fresh_like(node)
    if value_tree == ["sym", "q_new"]:
        value_tree = ["sym", "u1"]
    elif value_tree == ["arr", "pnew"]:
        value_tree = ["arr", "k1"]

    def surgery(t):
        if t[0] == "cls" and G.digest(G.build(t)) == key_digest:
            return value_tree
        if t[0] in {"add", "mul", "div"}:
            return [t[0], surgery(t[1]), surgery(t[2])]
        if t[0] in {"pow", "neg"}:
            return [t[0], surgery(t[1]), *t[2:]]
        if t[0] == "cls":
            return [t[0], t[1], [surgery(a) for a in t[2]], t[3]]
        return t

    want = G.build(surgery(tree), under_test)
    got = under_test("xreplace(expression key)", e.xreplace, {key_obj: G.build(value_tree)})
    labels.append("exprkey:self" if not path else "exprkey:nested")
    if G.digest(got) == G.digest(want) or got == want:
        return None
    verdict = None
    if not G.library_nodes(got) and not G.library_nodes(want):
        verdict, _ = numeric_same(got, want)
    if verdict:
        return None
    return violation(
        "xreplace_expression_key", nontrivial, labels,
        key=str(key_obj)[:200], key_has_non_sympy_fields=bool(G.nonsympy_fields(type(key_obj))),
        got=str(got)[:300], want=str(want)[:300],
    )


def check_attribute_key(e, tree, desc, labels, nontrivial):
    """xreplace with a non-SymPy attribute value as key (``{PhaseSpaceFactor: PhaseSpaceFactorAbs}``, the
    feature pinned by the repository's ``test_xreplace_with_non_sympy_attributes``) == rebuild with that
    attribute replaced in every node that carries it -- whether or not the same rule also contains
    symbols, occurring in the expression or not."""
    import dataclasses  # noqa: PLC0415

    factors = G.phsp_factors()
    names = sorted(factors)

    def current(node):
        cls = G.discover().get(node[1])
        if cls is None or "phsp_factor" not in G.nonsympy_fields(cls):
            return None
        if "phsp_factor" in node[3]:
            return node[3]["phsp_factor"]
        default = next(f.default for f in dataclasses.fields(cls) if f.name == "phsp_factor")
        return next((n for n, v in factors.items() if v is default), None)

    carriers = [(path, node) for path, node in G.class_nodes(tree) if current(node) is not None]
    if not carriers:
        return None
    sel = desc["selfkey"]
    old_name = current(carriers[sel % len(carriers)][1])
    others = [n for n in names if n != old_name]
    new_name = others[(sel // 3 + desc["pair"]["j"]) % len(others)]
    variant = ("attribute_only", "with_absent_symbol", "with_present_symbol")[sel % 3]
    scalars = G.leaves(tree)["sym"]
    if variant == "with_present_symbol" and not scalars:
        variant = "with_absent_symbol"
    rule = {factors[old_name]: factors[new_name]}
    sym_old = sym_new = None
    if variant == "with_absent_symbol":
        rule[G.build(["sym", "nohit"])] = G.build(["sym", "u0"])
    elif variant == "with_present_symbol":
        sym_old = scalars[desc["pair"]["i"] % len(scalars)]
        sym_new = "u1" if sym_old != "u1" else "u2"
        rule[G.build(["sym", sym_old])] = G.build(["sym", sym_new])

    def surgery(t):
        if t[0] == "sym" and t[1] == sym_old:
            return ["sym", sym_new]
        if t[0] in {"add", "mul", "div"}:
            return [t[0], surgery(t[1]), surgery(t[2])]
        if t[0] in {"pow", "neg"}:
            return [t[0], surgery(t[1]), *t[2:]]
        if t[0] == "cls":
            extra = t[3]
            if current(t) == old_name:
                extra = {**extra, "phsp_factor": new_name}
            if t[1] == "PoolSum":
                extra = G.rename_pool_symbols(extra, sym_old, sym_new)
            return [t[0], t[1], [surgery(a) for a in t[2]], extra]
        return t

    labels.append(f"attrkey:{variant}")
    want = G.build(surgery(tree), under_test)
    got = under_test("xreplace(attribute key)", e.xreplace, rule)
    if G.digest(got) == G.digest(want) or got == want:
        return None
    return violation(
        "xreplace_attribute_key", True, labels, variant=variant, old=old_name, new=new_name,
        symbol_replaced=sym_old, n_carriers=len(carriers), got=str(got)[:300], want=str(want)[:300],
        got_digest=G.digest(got)[:12], want_digest=G.digest(want)[:12],
    )


def check_pair(e, tree, desc, labels, nontrivial):
    variant, differs, what, changed = make_variant(tree, desc["pair"])
    labels.append(f"pair:{differs or 'same'}")
    try:
        e2 = G.build(variant, under_test, keywords=differs is None)
    except UnderTestError:
        if differs is None:
            raise
        labels.append("pair:variant_not_constructible")
        return None
    if differs is not None and G.digest(e2) == G.digest(e):
        labels.append("pair:variant_identical")
        differs = None
    if differs is None:
        # the same instance once more, with the keyword arguments in the opposite order (and, where the class
        # unfolds, through the constructor flag evaluate=True): order of keywords is not part of an instance
        e3 = G.build(variant, under_test, keywords="reversed")
        if G.digest(e3) != G.digest(e) or not (e3 == e) or hash(e3) != hash(e):
            return violation("keyword_order_changes_instance", nontrivial, labels, e=str(e)[:200], e_reversed_keywords=str(e3)[:200],
                             args=[str(a)[:60] for a in e.args][:8], args_reversed=[str(a)[:60] for a in e3.args][:8])
        labels.append("pair:keyword_order_checked")
    expect_equal = differs is None
    eq, eq_rev, ne = bool(e == e2), bool(e2 == e), bool(e != e2)
    h1, h2 = hash(e), hash(e2)
    detail = {"differs": differs or "nothing", "what": what, "e": str(e)[:200], "e2": str(e2)[:200],
              "eq": eq, "eq_reversed": eq_rev, "ne": ne, "hash_equal": h1 == h2}
    if eq != expect_equal or eq_rev != expect_equal or ne == expect_equal:
        return violation("equal_despite_difference" if not expect_equal else "unequal_although_identical",
                         nontrivial, labels, **detail)
    if expect_equal and h1 != h2:
        return violation("hash_differs_although_equal", nontrivial, labels, **detail)
    if not expect_equal and h1 == h2:
        if changed is not None and hash(G.build(changed[0])) == hash(G.build(changed[1])):
            # Python-level collision of the two differing pieces (e.g. hash(-1) == hash(-2))
            labels.append("hash:python_level_collision")
            return None
        return violation("hash_equal_despite_difference", nontrivial, labels, **detail)
    return None


SIBLING_MAX_NODES = 400


def check_siblings(e, d, tree, desc, labels, nontrivial):
    """Law 1 for *two* nested arguments that differ in one place only: ``Kallen(e, e', x)`` (a library class
    whose unfolding multiplies and adds its arguments) must unfold, and to the same value as
    ``Kallen(e.doit(), e'.doit(), x)``.  SymPy orders the terms of the products and sums that appear on the
    way with ``Basic.compare``, which walks through ``_hashable_content()`` -- the place where two instances
    that differ only in a non-SymPy attribute have to be told apart *and ordered*."""
    rec = G.recipes().get(tree[1])
    if rec is None or rec.source == "custom" or rec.returns not in {"scalar", "cscalar"} or "Kallen" not in G.discover():
        return None
    variant, differs, what, _ = make_variant(tree, desc["pair"])
    if differs is None:
        return None
    try:
        e2 = G.build(variant, under_test)
    except UnderTestError:
        return None
    if G.digest(e2) == G.digest(e):
        return None
    if G.count_nodes(d, SIBLING_MAX_NODES) >= SIBLING_MAX_NODES:
        return None
    labels.append(f"siblings:{differs}")
    x = ["sym", "nohit"]
    folded = under_test("Kallen(e, e', x)", G.build, ["cls", "Kallen", [tree, variant, x], {}])
    try:
        lhs = _ut("Kallen(e, e', x).doit", folded.doit)
        d2 = _ut("doit", e2.doit)
    except _SkipCase:
        return None
    kallen = G.discover()["Kallen"]
    rhs = under_test("Kallen(e.doit(), e'.doit(), x).doit", lambda: kallen(d, d2, G.build(x)).doit())
    if G.digest(lhs) == G.digest(rhs) or lhs == rhs:
        return None
    # Equal up to SymPy's automatic collection of terms (e and e' may unfold to the same expression): the
    # value is a heavily cancelling polynomial, so a numerical comparison would only measure rounding. What
    # this clause asserts is that both routes *can be taken* (no exception) and agree when they are
    # structurally comparable; the value itself is law 1's business (check_commute) on each argument.
    left = sorted({type(n).__name__ for n in G.library_nodes(lhs) if _foldable(type(n))})
    if left:
        return violation("doit_incomplete", nontrivial, labels, folded_classes_left=left, where="Kallen(e, e', x)")
    labels.append("siblings:structure_differs_not_judged")
    return None


def check_evaluate_flag(e, tree, labels, nontrivial):
    """``cls(..., evaluate=True)`` (constructor flag of every ``@unevaluated`` class) == ``cls(...).evaluate()``."""
    import dataclasses  # noqa: PLC0415

    cls = type(e)
    if not dataclasses.is_dataclass(cls) or not callable(getattr(e, "evaluate", None)) or tree[0] != "cls":
        return None
    try:
        want = e.evaluate()
    except Exception:  # noqa: BLE001  (a class without an unfolding, or a singular one: nothing to compare)
        return None
    args = [G.build(a) for a in tree[2]]
    got = G.build_instance(tree[1], args, tree[3], lambda label, fn, *a, **k: under_test(f"{label[:-2]}(evaluate=True)", fn, *a, evaluate=True, **k))
    labels.append("evaluate_flag:checked")
    if got == want or G.digest(got) == G.digest(want):
        return None
    sp = _sp()
    if isinstance(got, sp.Basic) and isinstance(want, sp.Basic):
        if got.atoms(sp.Dummy) or want.atoms(sp.Dummy):
            # every evaluate() call creates its own bound Dummy (SphericalHankel1): compare the unfolded values
            try:
                if got.doit() == want.doit():
                    return None
            except Exception:  # noqa: BLE001, S110
                pass
            labels.append("evaluate_flag:dummies_not_judged")
            return None
    return violation("evaluate_flag_differs_from_evaluate", nontrivial, labels, got=str(got)[:300], want=str(want)[:300])


def check_rebuild(e, labels, nontrivial):
    n_checked = 0
    for node in G.library_nodes(e):
        cls = type(node)
        if G.nonsympy_fields(cls):
            continue
        n_checked += 1
        rebuilt = under_test(f"{cls.__name__}.func(*args)", lambda node=node: node.func(*node.args))
        if not (rebuilt == node) or G.digest(rebuilt) != G.digest(node) or hash(rebuilt) != hash(node):
            return violation("rebuild_from_args_differs", nontrivial, labels, cls=cls.__name__,
                             node=str(node)[:200], rebuilt=str(rebuilt)[:200])
    labels.append("rebuild:checked" if n_checked else "rebuild:none_all_sympy")
    return None


def _explicit_values(e, names, data):
    """(n,4,4) array from ``as_explicit()`` evaluated element-wise, or None."""
    sp, np = _sp(), _np()
    matrix = under_test("as_explicit", e.as_explicit)
    entries = [under_test("as_explicit.doit", sp.sympify(x).doit) for x in matrix]
    vals = _lambdify_eval(entries, names, data, cse=False)
    n_events = 3
    full = np.empty((n_events, 4, 4), dtype=complex)
    for idx, v in enumerate(vals):
        full[:, idx // 4, idx % 4] = np.broadcast_to(np.asarray(v, dtype=complex), (n_events,))
    return full


def check_codegen(e, d, tree, labels, nontrivial):
    names = G.leaves(tree)
    names = {**names, "idx": []}
    if G.count_nodes(d, MAX_NODES_CODEGEN) >= MAX_NODES_CODEGEN:
        labels.append("codegen:skipped_large")
        return None
    sp = _sp()
    singular = {sp.zoo, sp.nan, sp.oo, -sp.oo}
    if any(n in singular for n in sp.preorder_traversal(d) if isinstance(n, sp.Basic) and not n.args):
        # (not `d.has(...)`: ArrayAxisSum(axis=None) keeps a Python None in .args, which breaks Basic.has)
        labels.append("codegen:skipped_singular_unfolded_form")
        return None
    data = G.batch_data(names, seed=7, n_events=3)
    unprintable = _unprintable_classes(e)
    unfolded = {}
    has_integral = any(isinstance(n, sp.Integral) for n in sp.preorder_traversal(d))
    symbolic_sum = any(isinstance(n, sp.Sum) and n.free_symbols for n in sp.preorder_traversal(d) if isinstance(n, sp.Basic))
    if symbolic_sum:
        # a sum that stays unevaluated (symbolic angular momentum) is printed by sympy alone, and
        # sympy's cse moves sub-expressions of the bound summation variable out of the sum
        labels.append("codegen:skipped_unevaluated_symbolic_sum")
        return None
    for cse in (False, True):
        try:
            unfolded[cse] = _lambdify_eval(d, names, data, cse=cse)
        except Exception as exc:  # noqa: BLE001
            if cse and has_integral and False in unfolded:
                if _tolerated("integral_cse"):
                    labels.append("TOLERATED_BY_ENV:integral_cse")
                    return None
                return violation(
                    "codegen_cse_breaks_integral", nontrivial, labels, exc_type=type(exc).__name__,
                    message=str(exc)[:200], works_without_cse=True,
                    note="cse moves a sub-expression of the bound integration variable out of the integrand",
                )
            raise UnderTestError(f"lambdify(doit, cse={cse})", exc) from exc
    slack, ill, n_hazard = _condition_slack(d, names, data, unfolded[True], reference_without_cse=unfolded[False])
    if ill:
        labels.append("codegen:ill_conditioned")
    if n_hazard:
        labels.append("codegen:events_masked_complex_ordering_or_branch_cut")
    csqrt = [n for n in sp.preorder_traversal(d) if type(n).__name__ == "ComplexSqrt" and G.is_library_class(type(n))]
    if csqrt:
        # ComplexSqrt.doit() is the identity by design; its explicit form is get_definition()
        try:
            explicit = d.replace(
                lambda n: type(n).__name__ == "ComplexSqrt" and G.is_library_class(type(n)),
                lambda n: n.get_definition(),
            )
            decidable = any(not isinstance(n.get_definition(), sp.Piecewise) for n in csqrt)
            wants = {cse: _lambdify_eval(explicit, names, data, cse=cse) for cse in (False, True)}
        except Exception:  # noqa: BLE001  (the reference side: sympy's Piecewise on an exotic argument)
            labels.append("codegen:complexsqrt_definition_not_evaluable")
            wants = {}
        for cse, want in wants.items():
            same, _, err, shape = _close(unfolded[cse], want, slack)
            if not same:
                if decidable and _tolerated("complexsqrt_code"):
                    labels.append("TOLERATED_BY_ENV:complexsqrt_code")
                    break
                return violation(
                    "codegen_vs_explicit_definition", nontrivial, labels, cse=cse, max_rel_err=err, shape=shape,
                    complexsqrt_sign_decided_by_assumptions=bool(decidable),
                )
        else:
            if wants:
                labels.append("codegen:complexsqrt_definition_compared")
    same, n_fin, err, shape = _close(unfolded[False], unfolded[True], slack)
    if not same:
        decidable = any(
            type(n).__name__ == "ComplexSqrt" and not isinstance(n.get_definition(), sp.Piecewise)
            for n in sp.preorder_traversal(d)
        )
        if decidable and _tolerated("complexsqrt_code"):
            labels.append("TOLERATED_BY_ENV:complexsqrt_code")
            return None
        return violation("codegen_cse_on_vs_off", nontrivial, labels, max_rel_err=err, shape=shape,
                         complexsqrt_sign_decided_by_assumptions=bool(decidable))
    labels.append("codegen:nothing_comparable" if n_fin == 0 else "codegen:finite")
    folded_ok = 0
    folded_has_sum = any(isinstance(n, (sp.Sum, sp.Integral)) and type(n).__name__ != "UnevaluatableIntegral"
                         for n in sp.preorder_traversal(e) if isinstance(n, sp.Basic))
    if folded_has_sum:
        # _SymbolicSum is printed by sympy's own Sum printer, and sympy's cse does not know bound variables
        labels.append("codegen:folded_contains_sympy_Sum_not_compared")
    for cse in (False, True) if not folded_has_sum else ():
        try:
            folded = _lambdify_eval(e, names, data, cse=cse)
        except Exception as exc:  # noqa: BLE001
            if _is_pmnie(exc) and unprintable:
                labels.append("codegen:folded_PrintMethodNotImplemented")
                continue
            if _is_pmnie(exc):
                return violation("folded_form_not_printable", nontrivial, labels, cse=cse,
                                 message=str(exc)[:200], classes=sorted({type(n).__name__ for n in G.library_nodes(e)}))
            raise UnderTestError(f"lambdify(folded, cse={cse})", exc) from exc
        folded_ok += 1
        same, _, err, shape = _close(folded, unfolded[cse], slack)
        if not same:
            return violation("codegen_folded_vs_unfolded", nontrivial, labels, cse=cse, max_rel_err=err,
                             shape=shape, cls=type(e).__name__)
    if folded_ok:
        labels.append("codegen:folded_compared")
    if callable(getattr(type(e), "as_explicit", None)) and G.is_library_class(type(e)):
        explicit = _explicit_values(e, names, data)
        same, n_fin, err, shape = _close(unfolded[True], explicit, slack)
        if not same:
            return violation("codegen_vs_as_explicit", nontrivial, labels, max_rel_err=err, shape=shape,
                             cls=type(e).__name__)
        labels.append("codegen:as_explicit_compared" if n_fin else "codegen:as_explicit_all_nan")
    return None


# ----------------------------------------------------------------------- inventory case
def run_inventory() -> Result:
    inv = G.inventory()
    labels = []
    for name, entry in inv.items():
        labels.append(f"class:{name}:{entry['status']}:{entry['recipe']}")
        if entry["status"] == "failed":
            labels.append(f"NOT_INSTANTIATED:{name}")
    for mod in G.import_failures():
        labels.append(f"MODULE_IMPORT_FAILED:{mod}")
    labels.append(f"classes_discovered={len(inv)}")
    return ok(False, labels, inventory=inv, import_failures=G.import_failures())


# ----------------------------------------------------------------------- the case
def run_case(desc) -> Result:
    if "inventory" in desc:
        return run_inventory()
    tree = desc["expr"]
    name = tree[1]
    cls = G.discover().get(name)
    if cls is None:
        return skip("class_no_longer_exists", [f"cls:{name}"])
    labels = [f"cls:{name}", f"depth={G.class_depth(tree)}", f"mode:{desc['mode']}"]
    rec = G.recipes()[name]
    if rec.source == "generic":
        labels.append("recipe:generic")
    nested = G.has_nested_class(tree)
    attrs = G.nondefault_attributes(tree)
    if nested:
        labels.append("nested_class_argument")
    if attrs:
        labels.append("non_default_non_sympy_attribute")
    if any(G.nonsympy_fields(G.discover()[n[1]]) for _, n in G.class_nodes(tree) if n[1] in G.discover()):
        labels.append("has_non_sympy_fields")
    nontrivial = bool(nested or attrs)

    e = G.build(tree, under_test)
    if not isinstance(e, cls):
        return skip("constructor_evaluated_at_once", labels, got=type(e).__name__)
    try:
        d = _ut("doit", e.doit)
    except _SkipCase as exc:
        return skip(str(exc), labels)
    left = sorted({type(n).__name__ for n in G.library_nodes(d) if _foldable(type(n))})
    if left:
        return violation("doit_incomplete", nontrivial, labels, folded_classes_left=left, doit=str(d)[:300])
    if G.digest(d) == G.digest(e):
        labels.append("doit:identity")

    checks = [
        lambda: check_commute(e, d, tree, desc, labels, nontrivial),
        lambda: check_expression_key(e, tree, desc, labels, nontrivial),
        lambda: check_attribute_key(e, tree, desc, labels, nontrivial),
        lambda: check_pair(e, tree, desc, labels, nontrivial),
        lambda: check_siblings(e, d, tree, desc, labels, nontrivial),
        lambda: check_rebuild(e, labels, nontrivial),
        lambda: check_evaluate_flag(e, tree, labels, nontrivial),
        lambda: check_codegen(e, d, tree, labels, nontrivial),
    ]
    if G.count_nodes(d, MAX_NODES_UNFOLDED) >= MAX_NODES_UNFOLDED:
        # the size estimate of the generator was too optimistic: keep the cheap laws only
        labels.append("unfolded_form_too_large:commute_and_codegen_skipped")
        checks = checks[1:4] + checks[5:7]
    for check in checks:
        try:
            res = check()
        except _SkipCase as exc:
            return skip(str(exc), labels)
        if res is not None:
            return res
    return ok(nontrivial, labels, expr=str(e)[:160])
