"""Model -> numbers, the way a user (or tensorwaves) does it: ``doit()`` + ``lambdify``."""

from __future__ import annotations

import numpy as np
import sympy as sp


def momentum_symbols(exprs) -> list:
    syms = set()
    for e in exprs:
        syms |= e.free_symbols
    return sorted(syms, key=str)


def momentum_id(symbol) -> int:
    name = str(symbol)
    if not name.startswith("p") or not name[1:].isdigit():
        msg = f"{name} is not a four-momentum symbol p<i>"
        raise ValueError(msg)
    return int(name[1:])


def kinematics_function(kinematic_variables: dict, parameter_values: dict | None = None, cse: bool = True):
    """Return ``f(momenta: {id: (n,4) array}) -> {symbol: array}``.

    Parameter values (e.g. stable final-state masses that occur inside alignment angles)
    are inserted first, as the property's statement prescribes.
    """
    keys = list(kinematic_variables)
    exprs = []
    for k in keys:
        e = kinematic_variables[k]
        if parameter_values:
            e = e.xreplace(parameter_values)
        exprs.append(e.doit())
    psyms = momentum_symbols(exprs)
    ids = [momentum_id(s) for s in psyms]
    fn = sp.lambdify(psyms, exprs, "numpy", cse=cse)

    def evaluate(momenta):
        values = fn(*[momenta[i] for i in ids])
        n = len(next(iter(momenta.values())))
        out = {}
        for k, v in zip(keys, values):
            arr = np.asarray(v)
            if arr.ndim == 0:
                arr = np.full(n, arr)
            out[k] = arr
        return out

    evaluate.symbols = psyms
    return evaluate


def scalar_function(expr: sp.Expr, cse: bool = False):
    """Return ``f(values: {symbol: number/array}) -> array`` for a scalar expression."""
    unfolded = expr.doit()
    syms = sorted(unfolded.free_symbols, key=str)
    fn = sp.lambdify(syms, unfolded, "numpy", cse=cse)

    def evaluate(values):
        return fn(*[values[s] for s in syms])

    evaluate.symbols = syms
    evaluate.expr = unfolded
    return evaluate
