"""Model -> numbers, the way a user (or tensorwaves) does it: ``doit()`` + ``lambdify``."""

from __future__ import annotations

import numpy as np
import sympy as sp


def momentum_symbols(exprs) -> list:
    syms = set()
    for e in exprs:
        syms |= e.free_symbols
    return sorted(syms, key=str)


def momentum_id(symbol) -> int:
    name = str(symbol)
    if not name.startswith("p") or not name[1:].isdigit():
        msg = f"{name} is not a four-momentum symbol p<i>"
        raise ValueError(msg)
    return int(name[1:])


def kinematics_function(kinematic_variables: dict, parameter_values: dict | None = None, cse: bool = True):
    """Return ``f(momenta: {id: (n,4) array}) -> {symbol: array}``.

    Parameter values (e.g. stable final-state masses that occur inside alignment angles)
    are inserted first, as the property's statement prescribes.
    """
    keys = list(kinematic_variables)
    exprs = []
    for k in keys:
        e = kinematic_variables[k]
        if parameter_values:
            e = e.xreplace(parameter_values)
        exprs.append(e.doit())
    psyms = momentum_symbols(exprs)
    ids = [momentum_id(s) for s in psyms]
    fn = sp.lambdify(psyms, exprs, "numpy", cse=cse)

    def evaluate(momenta):
        values = fn(*[momenta[i] for i in ids])
        n = len(next(iter(momenta.values())))
        out = {}
        for k, v in zip(keys, values):
            arr = np.asarray(v)
            if arr.ndim == 0:
                arr = np.full(n, arr)
            out[k] = arr
        return out

    evaluate.symbols = psyms
    return evaluate


def scalar_function(expr: sp.Expr, cse: bool = False):
    """Return ``f(values: {symbol: number/array}) -> array`` for a scalar expression."""
    unfolded = expr.doit()
    syms = sorted(unfolded.free_symbols, key=str)
    fn = sp.lambdify(syms, unfolded, "numpy", cse=cse)

    def evaluate(values):
        return fn(*[values[s] for s in syms])

    evaluate.symbols = syms
    evaluate.expr = unfolded
    return evaluate


def fast_scalar_function(expr: sp.Expr, direct_below: int = 40):
    """Like `scalar_function`, but affordable for sums of thousands of Wigner-D products.

    The distinct ``WignerD`` atoms of the (folded) expression are unfolded and lambdified
    once each; in the expression they are replaced by dummies, and the remaining skeleton
    (coefficients, Clebsch-Gordans, lineshapes) is unfolded and lambdified as a polynomial
    in those dummies.  Mathematically this is ``lambdify(expr.doit())``; expressions with
    fewer than `direct_below` Wigner-D occurrences take exactly that plain route.
    """
    from sympy.physics.quantum.spin import WignerD  # noqa: PLC0415

    atoms = sorted(expr.atoms(WignerD), key=str)
    if expr.count(WignerD) < direct_below:  # occurrences, not distinct atoms
        return scalar_function(expr, cse=True)
    dummies = {a: sp.Dummy(f"D{i}") for i, a in enumerate(atoms)}
    skeleton = expr.xreplace(dummies).doit()
    atom_exprs = [a.doit() for a in atoms]
    atom_syms = sorted({s for e in atom_exprs for s in e.free_symbols}, key=str)
    atom_fn = sp.lambdify(atom_syms, atom_exprs, "numpy", cse=True)
    dummy_list = [dummies[a] for a in atoms]
    skel_syms = sorted(skeleton.free_symbols - set(dummy_list), key=str)
    skel_fn = sp.lambdify([*dummy_list, *skel_syms], skeleton, "numpy", cse=False)
    all_syms = sorted(set(atom_syms) | set(skel_syms), key=str)

    def evaluate(values):
        d_values = atom_fn(*[values[s] for s in atom_syms])
        return skel_fn(*d_values, *[values[s] for s in skel_syms])

    evaluate.symbols = all_syms
    evaluate.expr = skeleton
    return evaluate
