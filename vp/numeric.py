"""Evaluate a formulated model on four-momenta: kinematic variables -> intensity."""

from __future__ import annotations

import numpy as np

from vp.evalmodel import fast_scalar_function, kinematics_function


class ModelEvaluator:
    """Lambdified kinematics and intensity of one HelicityModel (built once, reused)."""

    def __init__(self, model, id_offset: int = 0, cse: bool = True) -> None:
        self.model = model
        self.id_offset = id_offset
        defaults = dict(model.parameter_defaults.items())
        self.defaults = defaults
        self.kin = kinematics_function(model.kinematic_variables, defaults, cse)
        self.intensity = fast_scalar_function(model.expression)
        self.parameters = [s for s in self.intensity.symbols if s in defaults]
        self.variables = [s for s in self.intensity.symbols if s not in defaults]

    def draw_parameters(self, rng) -> dict:
        values = {}
        for s in self.parameters:
            if s.name.startswith(("C_", "H_")):
                values[s] = complex(rng.uniform(-1, 1), rng.uniform(-1, 1))
            else:
                values[s] = self.defaults[s]
        return values

    def kinematics(self, momenta: dict[int, np.ndarray]) -> dict:
        shifted = {i + self.id_offset: p for i, p in momenta.items()}
        return self.kin(shifted)

    def __call__(self, momenta, parameters) -> np.ndarray:
        kin = self.kinematics(momenta)
        missing = [s for s in self.variables if s not in kin]
        if missing:
            msg = f"intensity needs undefined variables {missing}"
            raise KeyError(msg)
        values = {**{s: kin[s] for s in self.variables}, **parameters}
        out = self.intensity(values)
        n = len(next(iter(momenta.values())))
        return np.broadcast_to(np.asarray(out, dtype=complex), (n,))
