"""Entry point of one shard process: ``python -m vp.shard <pid> <tier> <k> <n> <seed> <out>``."""
import sys

from vp.harness import shard_main

if __name__ == "__main__":
    sys.exit(shard_main(sys.argv[1:]))
