"""Verification machinery for ComPWA/ampform (property-based testing / fuzzing).

Run one property with ``/venv/bin/python -m vp.run C18 --tier quick``.
"""
