"""R1 — independent spin algebra: Wigner small-d and Clebsch-Gordan from factorial sums.

No import of sympy.physics or ampform.  ``python -m vp.ref.spin`` validates both against
sympy on random arguments (self-test only; sympy is not used by the oracles).
"""

from __future__ import annotations

import cmath
import math
from fractions import Fraction as F
from math import factorial as f


def _i(x) -> int:
    x = F(x)
    if x.denominator != 1:
        msg = f"{x} is not an integer"
        raise ValueError(msg)
    return int(x)


def small_d(j, m, mp, beta: float) -> float:
    """Wigner d^j_{m mp}(beta) = <j m| exp(-i beta J_y) |j mp> (Wigner's formula)."""
    j, m, mp = F(j), F(m), F(mp)
    if abs(m) > j or abs(mp) > j:
        return 0.0
    if (j - m).denominator != 1 or (j - mp).denominator != 1:
        return 0.0
    pref = math.sqrt(f(_i(j + m)) * f(_i(j - m)) * f(_i(j + mp)) * f(_i(j - mp)))
    c, s = math.cos(beta / 2), math.sin(beta / 2)
    kmin = max(0, _i(mp - m))
    kmax = min(_i(j + mp), _i(j - m))
    tot = 0.0
    for k in range(kmin, kmax + 1):
        num = (-1) ** (_i(m - mp) + k)
        den = f(_i(j + mp) - k) * f(k) * f(_i(m - mp) + k) * f(_i(j - m) - k)
        pc = _i(2 * j + mp - m) - 2 * k
        ps = _i(m - mp) + 2 * k
        tot += num / den * (c**pc if pc else 1.0) * (s**ps if ps else 1.0)
    return pref * tot


def big_d(j, m, mp, alpha: float, beta: float, gamma: float) -> complex:
    """D^j_{m mp}(alpha,beta,gamma) = exp(-i m alpha) d^j_{m mp}(beta) exp(-i mp gamma)."""
    return cmath.exp(-1j * float(F(m)) * alpha) * small_d(j, m, mp, beta) * cmath.exp(-1j * float(F(mp)) * gamma)


def cg(j1, m1, j2, m2, J, M) -> float:
    """Clebsch-Gordan <j1 m1 j2 m2 | J M> (Racah's formula, Condon-Shortley phase)."""
    j1, m1, j2, m2, J, M = map(F, (j1, m1, j2, m2, J, M))
    if m1 + m2 != M:
        return 0.0
    if J > j1 + j2 or J < abs(j1 - j2):
        return 0.0
    if abs(m1) > j1 or abs(m2) > j2 or abs(M) > J:
        return 0.0
    if (j1 + j2 + J).denominator != 1:
        return 0.0
    if (j1 - m1).denominator != 1 or (j2 - m2).denominator != 1 or (J - M).denominator != 1:
        return 0.0
    pre = math.sqrt(
        (2 * J + 1) * f(_i(J + j1 - j2)) * f(_i(J - j1 + j2)) * f(_i(j1 + j2 - J)) / f(_i(j1 + j2 + J + 1))
    )
    pre *= math.sqrt(
        f(_i(J + M)) * f(_i(J - M)) * f(_i(j1 - m1)) * f(_i(j1 + m1)) * f(_i(j2 - m2)) * f(_i(j2 + m2))
    )
    tot = 0.0
    for k in range(_i(j1 + j2 - J) + 1):
        a = [
            _i(j1 + j2 - J) - k,
            _i(j1 - m1) - k,
            _i(j2 + m2) - k,
            _i(J - j2 + m1) + k,
            _i(J - j1 - m2) + k,
        ]
        if min(a) < 0:
            continue
        tot += (-1) ** k / (f(k) * f(a[0]) * f(a[1]) * f(a[2]) * f(a[3]) * f(a[4]))
    return pre * tot


def spin_range(s) -> list[F]:
    s = F(s)
    return [-s + k for k in range(int(2 * s) + 1)]


if __name__ == "__main__":
    import random

    import sympy as sp
    from sympy.physics.quantum.cg import CG
    from sympy.physics.quantum.spin import Rotation

    rnd = random.Random(1)
    bad = 0
    for _ in range(400):
        j = F(rnd.randint(0, 7), 2)
        m = j - rnd.randint(0, int(2 * j))
        mp = j - rnd.randint(0, int(2 * j))
        b = rnd.uniform(0, math.pi)
        a = small_d(j, m, mp, b)
        r = complex(Rotation.d(sp.Rational(j), sp.Rational(m), sp.Rational(mp), b).doit().evalf())
        if abs(a - r) > 1e-10:
            bad += 1
            print("d", j, m, mp, a, r)
    for _ in range(600):
        j1 = F(rnd.randint(0, 7), 2)
        j2 = F(rnd.randint(0, 7), 2)
        m1 = j1 - rnd.randint(0, int(2 * j1))
        m2 = j2 - rnd.randint(0, int(2 * j2))
        J = abs(j1 - j2) + rnd.randint(0, int(2 * min(j1, j2)) + 1)
        M = m1 + m2
        a = cg(j1, m1, j2, m2, J, M)
        r = float(CG(*map(sp.Rational, (j1, m1, j2, m2, J, M))).doit())
        if abs(a - r) > 1e-10:
            bad += 1
            print("cg", j1, m1, j2, m2, J, M, a, r)
    print("mismatches:", bad)
