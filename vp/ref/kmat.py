"""Shared helpers for the K-matrix checks (C09, C10).

* `compile_matrix`   turn a matrix returned by ``*.formulate`` into a vectorised numpy
                     function of named parameter arrays.  Two routes:
                     ``doit``     the user route: ``matrix.doit()`` -> ``lambdify``;
                     ``compose``  every maximal unevaluated node (``sp.Sum``, ampform's
                                  ``@unevaluated`` classes, the probe class) is unfolded
                                  with ``doit()`` **once**, lambdified on its own and fed
                                  into the lambdified skeleton.  Same value by the
                                  substitution semantics of expression trees, but the
                                  cost no longer grows with the number of *copies* of
                                  ``K_ij`` in the symbolic inverse (2 channels x 2 poles,
                                  L=2: 62 s -> <1 s).
* `draw_points`      a batch of real parameter points for a regime.
* numpy reference (R3) for break-up momentum, phase-space factors that are real above
  threshold, Blatt-Weisskopf factors (closed polynomials generated from the Hankel sum in
  exact integers) and the pole parametrisation; used for condition estimates and labels.
* phase-space-factor registry incl. two harness-defined probes.

Nothing in here imports ampform at module import time (the shard decides which source
tree is on ``sys.path``).
"""

from __future__ import annotations

import math
from fractions import Fraction

import numpy as np
import sympy as sp

EPS = float(np.finfo(float).eps)


# ------------------------------------------------------------------ probes / registry
class ProbePhaseSpaceFactor(sp.Expr):
    """Harness-defined phase-space factor (class form): ``sqrt(1 - (m1+m2)^2/s)``.

    Real and positive above threshold, different from every ampform implementation (the
    pseudo-threshold factor is missing), so a default factor leaking into a result is
    visible numerically as well as structurally.
    """

    is_commutative = True

    def __new__(cls, s, m1, m2):
        return sp.Expr.__new__(cls, sp.sympify(s), sp.sympify(m1), sp.sympify(m2))

    def evaluate(self):
        s, m1, m2 = self.args
        return sp.sqrt(1 - (m1 + m2) ** 2 / s)

    def doit(self, **hints):
        return self.evaluate().doit(**hints)


def probe_phsp_function(s, m1, m2):
    """Harness-defined phase-space factor (plain-function form): ``sqrt(s-(m1+m2)^2)/(1+sqrt(s))``."""
    return sp.sqrt(s - (m1 + m2) ** 2) / (1 + sp.sqrt(s))


PHSP_NAMES = [
    "PhaseSpaceFactor",
    "PhaseSpaceFactorAbs",
    "PhaseSpaceFactorComplex",
    "PhaseSpaceFactorSWave",
    "EqualMassPhaseSpaceFactor",
    "BreakupMomentumSquared",
    "chew_mandelstam_s_wave",
    "ProbeClass",
    "probe_function",
]
#: variants that are real (and positive) for s above threshold
REAL_ABOVE_THRESHOLD = ["PhaseSpaceFactor", "PhaseSpaceFactorAbs", "PhaseSpaceFactorComplex"]


def phsp_by_name(name: str):
    if name == "ProbeClass":
        return ProbePhaseSpaceFactor
    if name == "probe_function":
        return probe_phsp_function
    from ampform.dynamics import phasespace  # noqa: PLC0415

    return getattr(phasespace, name)


def phsp_classes() -> dict[str, type]:
    """Every class whose instances are (or stand for) a phase-space factor."""
    from ampform.dynamics import phasespace  # noqa: PLC0415

    out = {
        n: getattr(phasespace, n)
        for n in PHSP_NAMES
        if n not in {"chew_mandelstam_s_wave", "ProbeClass", "probe_function"}
    }
    out["ProbeClass"] = ProbePhaseSpaceFactor
    return out


def expected_phsp_classes(name: str) -> set[str]:
    """Names of the phase-space classes a result formulated with `name` may contain."""
    if name == "chew_mandelstam_s_wave":
        return {"BreakupMomentumSquared"}  # the function is written in terms of q^2
    if name == "probe_function":
        return set()
    return {name}


# ------------------------------------------------------------------ symbols
def library_symbols():
    """The symbols `formulate` uses internally (same names and assumptions)."""
    return {
        "s": sp.Symbol("s", nonnegative=True),
        "m": sp.IndexedBase("m", nonnegative=True),
        "Gamma": sp.IndexedBase("Gamma", nonnegative=True),
        "gamma": sp.IndexedBase("gamma", nonnegative=True),
        "m_a": sp.IndexedBase("m_a", nonnegative=True),
        "m_b": sp.IndexedBase("m_b", nonnegative=True),
        "beta": sp.IndexedBase("beta", nonnegative=True),
        "R": sp.Symbol("R", integer=True, positive=True),
        "d": sp.Symbol("d", positive=True),
    }


KNOWN_BASES = {"m": 1, "Gamma": 2, "gamma": 2, "m_a": 1, "m_b": 1, "beta": 1}
KNOWN_SCALARS = {"s", "d"}


class CompileError(Exception):
    """The expression cannot be evaluated from the documented parameters alone."""


def _key_of(atom) -> tuple:
    if isinstance(atom, sp.Indexed):
        base = str(atom.base)
        idx = atom.indices
        if base in KNOWN_BASES and len(idx) == KNOWN_BASES[base] and all(i.is_Integer for i in idx):
            return (base, *[int(i) for i in idx])
        msg = f"unexpected indexed symbol {atom}"
        raise CompileError(msg)
    if isinstance(atom, sp.Symbol) and atom.name in KNOWN_SCALARS:
        return (atom.name,)
    msg = f"unexpected free symbol {atom}"
    raise CompileError(msg)


def unroll_sums(expr):
    """Replace every ``Sum(f, (R, a, b))`` with integer limits by ``f(a) + ... + f(b)``.

    This is the definition of the sum; ``Sum.doit()`` arrives at the same terms but first
    tries symbolic summation, which costs 20 s for one off-diagonal ``K_ij``.
    """
    sums = [node for node in sp.preorder_traversal(expr) if isinstance(node, sp.Sum)]
    if not sums:
        return expr
    mapping = {}
    for node in sums:
        if len(node.limits) != 1:
            continue
        idx, lo, hi = node.limits[0]
        if not (lo.is_Integer and hi.is_Integer):
            continue
        terms = [unroll_sums(node.function).xreplace({idx: sp.Integer(k)}) for k in range(int(lo), int(hi) + 1)]
        mapping[node] = sp.Add(*terms)
    return expr.xreplace(mapping)


def _is_unevaluated(node) -> bool:
    if isinstance(node, sp.Sum):
        return True
    if isinstance(node, ProbePhaseSpaceFactor):
        return True
    cls = type(node)
    return cls.__module__.startswith("ampform") and hasattr(cls, "evaluate")


def _collect_unevaluated(expr, found: dict):
    """Maximal unevaluated sub-expressions in deterministic (pre-order) order."""
    stack = [expr]
    while stack:
        node = stack.pop()
        if _is_unevaluated(node):
            if node not in found:
                found[node] = sp.Symbol(f"_u{len(found)}")
            continue
        stack.extend(reversed(node.args))


class Compiled:
    """Vectorised numpy evaluation of a list of expressions (row-major matrix entries)."""

    def __init__(self, exprs, shape, route: str, limits: tuple[int, int] | None = None) -> None:
        """`limits` = (n_channels, n_poles): indices outside 0..n_channels-1 / 1..n_poles are a `CompileError`."""
        self.shape = tuple(shape)
        self.route = route
        exprs = [sp.sympify(e) for e in exprs]
        leaves: dict = {}
        if route == "doit":
            skeleton = [e.doit() for e in exprs]
        elif route == "compose":
            exprs = [unroll_sums(e) for e in exprs]
            for e in exprs:
                _collect_unevaluated(e, leaves)
            skeleton = [e.xreplace(leaves).doit() for e in exprs]
        else:
            raise ValueError(route)
        leaf_exprs = [node.doit() for node in leaves]
        atoms = set()
        for e in [*skeleton, *leaf_exprs]:
            atoms |= e.atoms(sp.Indexed)
        plain = {a: sp.Symbol("_x_" + "_".join(map(str, _key_of(a)))) for a in sorted(atoms, key=str)}
        skeleton = [e.xreplace(plain) for e in skeleton]
        leaf_exprs = [e.xreplace(plain) for e in leaf_exprs]
        free = set()
        for e in [*skeleton, *leaf_exprs]:
            free |= e.free_symbols
        free -= set(leaves.values())
        free -= set(plain.values())
        keymap = {sym: _key_of(a) for a, sym in plain.items()}
        for sym in free:
            keymap[sym] = _key_of(sym)
        if limits is not None:
            for key in keymap.values():
                _check_limits(key, *limits)
        self.arg_syms = sorted(keymap, key=lambda x: keymap[x])
        self.arg_keys = [keymap[x] for x in self.arg_syms]
        self.n_leaves = len(leaf_exprs)
        self._leaf_fn = (
            sp.lambdify(self.arg_syms, leaf_exprs, "numpy", cse=True) if leaf_exprs else None
        )
        self._skel_fn = sp.lambdify(
            [*self.arg_syms, *leaves.values()], skeleton, "numpy", cse=True
        )

    def __call__(self, vals: dict, as_complex: bool = False) -> np.ndarray:
        batch = len(vals["s"])
        args = []
        for key in self.arg_keys:
            arr = np.asarray(vals[key[0]])
            arr = arr[(slice(None), *[(k - 1 if key[0] in {"m", "Gamma", "gamma", "beta"} and n == 0 else k)
                                      for n, k in enumerate(key[1:])])]
            args.append(arr.astype(complex) if as_complex else arr.astype(float))
        with np.errstate(all="ignore"):
            if self._leaf_fn is not None:
                leaf_vals = [np.broadcast_to(np.asarray(v), (batch,)) for v in self._leaf_fn(*args)]
            else:
                leaf_vals = []
            out = self._skel_fn(*args, *leaf_vals)
        out = np.stack([np.broadcast_to(np.asarray(v, dtype=complex), (batch,)) for v in out], axis=-1)
        return out.reshape((batch, *self.shape))


def _check_limits(key: tuple, n_channels: int, n_poles: int) -> None:
    name, idx = key[0], key[1:]
    ok = True
    if name in {"m", "beta"}:
        ok = 1 <= idx[0] <= n_poles
    elif name in {"Gamma", "gamma"}:
        ok = 1 <= idx[0] <= n_poles and 0 <= idx[1] < n_channels
    elif name in {"m_a", "m_b"}:
        ok = 0 <= idx[0] < n_channels
    if not ok:
        msg = f"index out of range: {name}{list(idx)} for {n_channels} channels, {n_poles} poles"
        raise CompileError(msg)


def compile_matrix(matrix, route: str, limits: tuple[int, int] | None = None) -> Compiled:
    matrix = sp.Matrix(matrix)
    return Compiled(list(matrix), matrix.shape, route, limits)


# ------------------------------------------------------------------ reference (R3)
def _bw_denominator_coefficients(ell: int) -> list[int]:
    """Integer coefficients c_k of ``D_L(z) = sum_k c_k z^k`` with
    ``B_L^2(z) = D_L(1) z^L / D_L(z)``, from ``h_L(x) ~ e^{ix}/x sum_k a_k (i/(2x))^k``,
    ``a_k = (L+k)!/((L-k)! k!)`` (von Hippel-Quigg (A12)); exact arithmetic."""
    a = [Fraction(math.factorial(ell + k), math.factorial(ell - k) * math.factorial(k) * 2**k) for k in range(ell + 1)]
    # |sum_k a_k i^k x^-k|^2 * x^(2L): real part: even k, imaginary part: odd k
    re = [Fraction(0)] * (ell + 1)  # coefficient of x^-k
    im = [Fraction(0)] * (ell + 1)
    for k in range(ell + 1):
        if k % 2 == 0:
            re[k] = a[k] * (-1) ** (k // 2)
        else:
            im[k] = a[k] * (-1) ** ((k - 1) // 2)
    sq = [Fraction(0)] * (2 * ell + 1)  # coefficient of x^-n
    for i in range(ell + 1):
        for j in range(ell + 1):
            sq[i + j] += re[i] * re[j] + im[i] * im[j]
    # multiply by x^(2L): x^(2L-n); only even n survive; z = x^2
    coeffs = [Fraction(0)] * (ell + 1)
    for n, c in enumerate(sq):
        if c == 0:
            continue
        assert n % 2 == 0, (ell, n, c)  # noqa: S101
        coeffs[(2 * ell - n) // 2] += c
    scale = 1
    for c in coeffs:
        scale = scale * c.denominator // math.gcd(scale, c.denominator)
    return [int(c * scale) for c in coeffs]


_BW_COEFFS = {ell: _bw_denominator_coefficients(ell) for ell in range(9)}


def blatt_weisskopf_sq(ell: int, z):
    c = _BW_COEFFS[int(ell)]
    z = np.asarray(z)
    den = sum(ck * z**k for k, ck in enumerate(c))
    return sum(c) * z ** int(ell) / den


def breakup_momentum_sq(s, m1, m2):
    return (s - (m1 + m2) ** 2) * (s - (m1 - m2) ** 2) / (4 * s)


def rho_ref(name: str, s, m1, m2):
    """Phase-space factors that are real above threshold (complex principal root below)."""
    q2 = np.asarray(breakup_momentum_sq(s, m1, m2), dtype=complex)
    if name == "PhaseSpaceFactorAbs":
        return 2 * np.sqrt(np.abs(q2)) / np.sqrt(np.asarray(s, dtype=complex))
    if name in {"PhaseSpaceFactor", "PhaseSpaceFactorComplex"}:
        return 2 * np.sqrt(q2) / np.sqrt(np.asarray(s, dtype=complex))
    raise ValueError(name)


def ref_k_unitary(vals, *, relativistic: bool, phsp: str = "PhaseSpaceFactor", ell: int = 0) -> np.ndarray:
    """``K' `` with ``T = K'(1 - iK')^-1`` from the documented pole parametrisation:
    non-relativistic ``K'_ij = sum_R g_Ri g_Rj/(m_R^2-s)``, ``g = gamma sqrt(m Gamma0)``;
    relativistic ``K' = sqrt(rho) K sqrt(rho)`` with ``Gamma0 -> Gamma(s) =
    Gamma0 B_L^2(q^2 d^2)/B_L^2(q_0^2 d^2) rho(s)/rho(m_R^2)``.  Shape (batch, n, n), complex
    (real whenever every pole lies above every threshold)."""
    s = vals["s"][:, None, None]  # (B,1,1) -> broadcast over (B, R, i)
    m = vals["m"][:, :, None]
    width = vals["Gamma"].astype(complex)
    if relativistic:
        ma, mb = vals["m_a"][:, None, :], vals["m_b"][:, None, :]
        d2 = (vals["d"] ** 2)[:, None, None]
        with np.errstate(all="ignore"):
            ff2 = blatt_weisskopf_sq(ell, breakup_momentum_sq(s, ma, mb) * d2)
            ff2_0 = blatt_weisskopf_sq(ell, breakup_momentum_sq(m**2, ma, mb) * d2)
            rho = rho_ref(phsp, s, ma, mb)
            rho_0 = rho_ref(phsp, m**2, ma, mb)
            width = width * (ff2 / ff2_0) * (rho / rho_0)
    with np.errstate(all="ignore"):
        g = vals["gamma"] * np.sqrt(m * width)  # (B, R, i)
        k = np.einsum("bri,brj->bij", g / (m**2 - s), g)
        if relativistic:
            sq = np.sqrt(rho_ref(phsp, vals["s"][:, None], vals["m_a"], vals["m_b"]))  # (B, i)
            k = sq[:, :, None] * k * sq[:, None, :]
    return k


# ------------------------------------------------------------------ points
REGIMES = ["generic", "near_threshold", "near_pole", "wide", "degenerate", "subthreshold_pole"]


def _logu(rng, lo, hi, size):
    return 10.0 ** rng.uniform(math.log10(lo), math.log10(hi), size)


def seed_entropy(seed, *extra: int) -> list[int]:
    """Entropy for ``numpy.random.default_rng``: `seed` is an int or a list of ints (Hypothesis draws six
    bytes: its large-integer distribution is strongly biased towards small values and repeats itself)."""
    base = [int(x) for x in seed] if isinstance(seed, (list, tuple)) else [int(seed)]
    return [*base, *[int(x) for x in extra]]


def draw_points(seed, regime: str, n_channels: int, n_poles: int, batch: int = 64,
                *, beta: bool = False, s_below: bool = False) -> dict:
    """A batch of real parameter points.

    Channel masses > 0, widths > 0, residues >= 0; s above the highest threshold (unless
    `s_below`: then half of the batch has s between 0 and the highest threshold).  Pole
    masses lie above every threshold except in the regime ``subthreshold_pole`` (at least
    one pole below the highest threshold in every point; in a quarter of the points that
    pole has zero residue in the channels it cannot decay to).
    """
    rng = np.random.default_rng(seed_entropy(seed))
    b, nc, npo = batch, n_channels, n_poles
    wide = regime == "wide"
    m_a = _logu(rng, 1e-3 if wide else 0.05, 5.0 if wide else 1.5, (b, nc))
    m_b = _logu(rng, 1e-3 if wide else 0.05, 5.0 if wide else 1.5, (b, nc))
    equal = rng.random((b, nc)) < 0.25
    m_b = np.where(equal, m_a, m_b)
    thr = (m_a + m_b) ** 2
    thr_max = thr.max(axis=1)
    m_thr = np.sqrt(thr_max)
    # pole masses: above the highest threshold
    m = m_thr[:, None] * (1 + _logu(rng, 1e-3 if wide else 2e-2, 10.0 if wide else 3.0, (b, npo)))
    if regime == "subthreshold_pole":
        which = rng.integers(0, npo, b)
        frac = rng.uniform(0.05, 0.98, b)
        m[np.arange(b), which] = m_thr * frac
    if regime == "degenerate" and npo >= 2:
        # two poles (nearly) on top of each other
        close = rng.random(b) < 0.5
        m[:, 1] = np.where(close, m[:, 0] * (1 + _logu(rng, 1e-9, 1e-3, b)), m[:, 1])
    width = _logu(rng, 1e-4 if wide else 1e-2, 10.0 if wide else 1.0, (b, npo, nc))
    resid = rng.uniform(0.0, 3.0 if wide else 1.5, (b, npo, nc))
    if regime == "degenerate":
        resid = np.where(rng.random((b, npo, nc)) < 0.3, 0.0, resid)
    # s above the highest threshold
    if regime == "near_threshold":
        s = thr_max * (1 + _logu(rng, 1e-9, 1e-2, b))
    elif regime == "near_pole":
        which = rng.integers(0, npo, b)
        m0 = m[np.arange(b), which]
        sign = rng.choice([-1.0, 1.0], b)
        s = m0**2 * (1 + sign * _logu(rng, 1e-10, 1e-2, b))
        s = np.where(s > thr_max, s, m0**2 * (1 + _logu(rng, 1e-10, 1e-2, b)))
        # a sub-threshold or marginal pole cannot be approached from above threshold: generic s there
        s = np.where(s > thr_max * (1 + 1e-12), s, thr_max * (1 + _logu(rng, 1e-3, 10.0, b)))
    else:
        s = thr_max * (1 + _logu(rng, 1e-4 if wide else 1e-3, 1e3 if wide else 20.0, b))
    if s_below:
        below = rng.random(b) < 0.5
        s = np.where(below, thr_max * rng.uniform(0.02, 0.999, b), s)
    if regime == "subthreshold_pole":
        # a quarter of the points: the sub-threshold pole is decoupled (gamma = 0) from every channel whose
        # threshold lies above it, so that it is harmless
        decouple = rng.random(b) < 0.25
        below = m[:, :, None] < (m_a + m_b)[:, None, :]
        resid = np.where(decouple[:, None, None] & below, 0.0, resid)
    out = {
        "s": s,
        "m": m,
        "Gamma": width,
        "gamma": resid,
        "m_a": m_a,
        "m_b": m_b,
        "d": _logu(rng, 0.1, 10.0, b),
    }
    if beta:
        out["beta"] = rng.uniform(0.0, 2.0, (b, npo))
    return out


def pole_distance(vals) -> np.ndarray:
    """Relative distance of s to the nearest pole, per point."""
    m2 = vals["m"] ** 2
    return np.min(np.abs(vals["s"][:, None] - m2) / m2, axis=1)


def poles_above_thresholds(vals) -> np.ndarray:
    thr_max = ((vals["m_a"] + vals["m_b"]) ** 2).max(axis=1)
    return (vals["m"] ** 2 > thr_max[:, None]).all(axis=1)
