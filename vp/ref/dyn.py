"""R3 — reference dynamics in plain Python (math / cmath / fractions).

Nothing here imports sympy or ampform.  Formulas are re-derived from the literature the
docstrings of ``ampform.dynamics`` cite (PDG "Kinematics"/"Resonances", Chung's K-matrix
primer, von Hippel-Quigg):

* ``q2_exact``      q^2 = (s-(m1+m2)^2)(s-(m1-m2)^2)/(4s), evaluated in *exact rational
                    arithmetic* on the given binary floats, together with a bound on the
                    rounding error a straightforward double-precision evaluation makes.
* ``rho_ref``       the five phase-space-factor variants for real s > 0
* ``chew_mandelstam_rho``  -i * (S-wave Chew-Mandelstam function) for every real s != 0,
                    written with the product identity N*N' = 4 m1^2 m2^2 so that it has no
                    cancellation (the textbook form loses all digits for s >> m1*m2)
* ``bw_coeffs``/``bw2``  normalised Blatt-Weisskopf B_L^2(z) from the spherical Hankel sum
                    h_L(x) ~ e^{ix}/x * sum_k (L+k)!/((L-k)! k!) (i/2x)^k  in exact rationals
* ``breit_wigner_ref``  relativistic Breit-Wigner with optional form factor and
                    energy-dependent width.

All functions take Python floats and return Python floats/complex.
"""

from __future__ import annotations

import cmath
import math
from fractions import Fraction
from functools import lru_cache

EPS = 2.0**-52
PHSP_KINDS = (
    "PhaseSpaceFactor",
    "PhaseSpaceFactorAbs",
    "PhaseSpaceFactorComplex",
    "PhaseSpaceFactorSWave",
    "EqualMassPhaseSpaceFactor",
)


# --------------------------------------------------------------------------- kinematics
def landmarks_exact(m1: float, m2: float) -> tuple[Fraction, Fraction]:
    """(pseudo-threshold, threshold) = ((m1-m2)^2, (m1+m2)^2) as exact rationals."""
    a, b = Fraction(m1), Fraction(m2)
    return (a - b) ** 2, (a + b) ** 2


def region(s: float, m1: float, m2: float) -> str:
    """Exact classification of the real number s relative to 0, (m1-m2)^2, (m1+m2)^2."""
    pth, thr = landmarks_exact(m1, m2)
    x = Fraction(s)
    if x < 0:
        return "s<0"
    if x == 0:
        return "s=0"
    if x == thr:
        return "s=thr"
    if x > thr:
        return "s>thr"
    if x == pth:
        return "s=pth"
    if x > pth:
        return "pth<s<thr"
    return "0<s<pth"


def q2_exact(s: float, m1: float, m2: float) -> tuple[float, float]:
    """(q^2, err): q^2 correctly rounded from exact rational arithmetic, and a bound on
    the absolute error of a plain double evaluation of the same formula at these floats.

    Error model: fl((m1+-m2)^2) carries <= 3 ulp, the subtraction from s one more, so
    each factor A = s-thr, B = s-pth is known to dA = 4 eps (|s|+thr), dB = 4 eps (|s|+pth);
    the product/quotient add a few ulp of the result.
    """
    pth, thr = landmarks_exact(m1, m2)
    x = Fraction(s)
    a, b = x - thr, x - pth
    q2 = float(a * b / (4 * x))
    fa, fb = abs(float(a)), abs(float(b))
    da = 4 * EPS * (abs(s) + float(thr))
    db = 4 * EPS * (abs(s) + float(pth))
    err = (da * fb + db * fa + da * db) / (4 * abs(s)) + 4 * EPS * abs(q2)
    return q2, err


def sqrt_spread(a: float, d: float) -> float:
    """sup |sqrt(|x|) - sqrt(|a|)| over |x-a| <= d  (not first order: valid for d >= |a|)."""
    a = abs(a)
    return max(math.sqrt(a + d) - math.sqrt(a), math.sqrt(a) - math.sqrt(max(a - d, 0.0)))


def complex_sqrt(x: float) -> complex:
    """Principal square root of a real number (+i sqrt|x| for negative x)."""
    return complex(0.0, math.sqrt(-x)) if x < 0 else complex(math.sqrt(x), 0.0)


# --------------------------------------------------------------------------- Chew-Mandelstam
def _cm_pieces(s: float, m1: float, m2: float, q2: float):
    """(pref, log_value, N, scale_N) with
    pref = 2q/sqrt(s) and log_value = log((m1^2+m2^2-s+2 sqrt(s) q)/(2 m1 m2)), where
    q = ComplexSqrt(q2) and sqrt(s) = i sqrt|s| for negative s (principal branches).

    N = m1^2+m2^2-s+2 sqrt(s) q is obtained without cancellation from
    N * N' = 4 m1^2 m2^2,  N' = m1^2+m2^2-s-2 sqrt(s) q.  `scale_N` is the size of the terms
    that cancel in the naive evaluation of N (for a condition estimate).
    """
    sig = m1 * m1 + m2 * m2
    kap = math.sqrt(abs(q2))
    rs = math.sqrt(abs(s))
    two = 2.0 * rs * kap  # |2 sqrt(s) q|
    scale = sig + abs(s) + two
    if s < 0:
        # sqrt(s) = i rs, q^2 < 0 -> q = i kap: 2 sqrt(s) q = -two ; 2q/sqrt(s) = 2 kap/rs
        pref = complex(2.0 * kap / rs, 0.0)
        nprime = sig - s + two  # all terms positive
        n = 4.0 * m1 * m1 * m2 * m2 / nprime
        return pref, complex(math.log(n / (2.0 * m1 * m2)), 0.0), n, scale
    if q2 >= 0:
        pref = complex(2.0 * kap / rs, 0.0)
        base = sig - s
        if base >= 0:
            # 0 < s <= pseudo-threshold: both terms positive
            n = base + two
            return pref, complex(math.log(n / (2.0 * m1 * m2)), 0.0), n, scale
        # above threshold: N = 4 m1^2 m2^2 / N', N' = -(s - sig + two) < 0  =>  N < 0
        nprime = base - two
        n = 4.0 * m1 * m1 * m2 * m2 / nprime
        return pref, complex(math.log(-n / (2.0 * m1 * m2)), math.pi), n, scale
    # pseudo-threshold < s < threshold: q = i kap, N = base + i two, |N| = 2 m1 m2
    pref = complex(0.0, 2.0 * kap / rs)
    base = sig - s
    return pref, complex(0.0, math.atan2(two, base)), complex(base, two), scale


def chew_mandelstam_rho(s: float, m1: float, m2: float, q2: float | None = None) -> complex:
    """-i * CM_S-wave(s) for real s != 0 (any positive masses)."""
    if q2 is None:
        q2 = q2_exact(s, m1, m2)[0]
    pref, logv, _, _ = _cm_pieces(s, m1, m2, q2)
    left = pref * logv
    right = _asymmetry_term(s, m1, m2)[0]
    return -1j * (left - right) / math.pi


def _asymmetry_term(s: float, m1: float, m2: float) -> tuple[float, float]:
    """(value, err) of (m1^2-m2^2)(1/s - 1/(m1+m2)^2) log(m1/m2).

    The value is computed without cancellation (m1^2-m2^2 = (m1-m2)(m1+m2), log via log1p, the
    bracket as (thr-s)/(s thr) from exact rationals); `err` bounds what the plain double
    evaluation of the textbook expression loses: m1**2-m2**2 and log(m1/m2) both cancel for
    nearly equal masses, the bracket cancels for s near threshold.
    """
    if m1 == m2:
        return 0.0, 0.0
    dm = m1 - m2
    a = dm * (m1 + m2)
    lg = math.log1p(dm / m2)
    _, thr = landmarks_exact(m1, m2)
    x = Fraction(s)
    bracket = float((thr - x) / (x * thr))
    value = a * bracket * lg
    fthr = float(thr)
    err = abs(a * lg) * (1.0 / abs(s) + 1.0 / fthr) * 8 * EPS + abs(value) * (
        4 * EPS * (m1 * m1 + m2 * m2) / abs(a) + 4 * EPS / abs(lg) + 8 * EPS
    )
    return value, err


def swave_condition(s: float, m1: float, m2: float, q2: float) -> float:
    """(size of the cancelling terms)/|N| for the textbook form of the log argument."""
    _, _, n, scale = _cm_pieces(s, m1, m2, q2)
    return scale / abs(n)


# --------------------------------------------------------------------------- rho variants
def equal_mass_rho(s: float, m1: float, m2: float, q2: float) -> complex:
    """PDG 2018 "Resonances" analytic continuation with rho_hat = sqrt|4 q^2/s| (real s != 0)."""
    rh = 2.0 * math.sqrt(abs(q2) / abs(s))
    thr = (m1 + m2) ** 2
    if s < 0 or s > thr:
        if rh == 1.0:
            return complex(math.nan, math.nan)
        cont = 1j * rh / math.pi * math.log(abs((1 + rh) / (1 - rh)))
        return cont if s < 0 else rh + cont
    if rh == 0:
        return 0j
    return 2j * rh / math.pi * math.atan2(1.0, rh)


def rho_ref(kind: str, s: float, m1: float, m2: float, q2: float | None = None) -> complex:
    """Reference value of a phase-space-factor variant for real s > 0."""
    if q2 is None:
        q2 = q2_exact(s, m1, m2)[0]
    rs = math.sqrt(s)
    if kind in {"PhaseSpaceFactor", "PhaseSpaceFactorComplex"}:
        return 2.0 * complex_sqrt(q2) / rs
    if kind == "PhaseSpaceFactorAbs":
        return complex(2.0 * math.sqrt(abs(q2)) / rs, 0.0)
    if kind == "PhaseSpaceFactorSWave":
        return chew_mandelstam_rho(s, m1, m2, q2)
    if kind == "EqualMassPhaseSpaceFactor":
        return equal_mass_rho(s, m1, m2, q2)
    raise KeyError(kind)


# --------------------------------------------------------------------------- rounding-error bounds
REL = 1e-13  # relative floor of every comparison (ordinary rounding of a handful of operations)
SAFETY = 4.0  # the q^2 error bound is inflated once more before it goes through sqrt/log (x2 at a threshold)


def swave_tol(s: float, m1: float, m2: float, q2: float, err: float) -> tuple[float, float]:
    """(tol, dlog) for a double evaluation of the *textbook* S-wave Chew-Mandelstam form.

    `err` is the bound on the error of q^2.  `dlog` is the relative uncertainty of the log
    argument N/(2 m1 m2) (N cancels for s >> m1 m2); dlog >= 0.5 means that not even its
    sign/phase is determined in double precision (tol is then infinite).
    """
    err = SAFETY * err
    rs = math.sqrt(abs(s))
    pref, logv, n, scale = _cm_pieces(s, m1, m2, q2)
    dq = sqrt_spread(q2, err)
    drh = 2.0 * dq / rs + 4 * EPS * abs(pref)
    dlog = (8 * EPS * scale + 2.0 * rs * dq) / abs(n)
    if dlog >= 0.5:
        return math.inf, dlog
    right, dright = _asymmetry_term(s, m1, m2)
    value = abs(pref * logv) + abs(right)
    tol = (drh * abs(logv) + abs(pref) * 1.5 * dlog + 2.0 * dright) / math.pi + REL * value
    return tol, dlog


def equal_mass_tol(s: float, m1: float, m2: float, q2: float, err: float) -> float:
    """Bound for a double evaluation of the PDG equal-mass continuation (any masses)."""
    err = SAFETY * err
    rs = math.sqrt(abs(s))
    rh = 2.0 * math.sqrt(abs(q2)) / rs
    drh = 2.0 * sqrt_spread(q2, err) / rs + 4 * EPS * rh
    thr, pth = (m1 + m2) ** 2, (m1 - m2) ** 2
    if s < 0 or s > thr:
        # 1 - rh^2 = 1 - 4 q^2/s = (thr+pth)/s - thr*pth/s^2, without cancellation
        u = abs((thr + pth) / s - thr * pth / (s * s))
        one_minus = u / (1.0 + rh)
        if one_minus <= 0:
            return math.inf
        lg = abs(math.log((1.0 + rh) / one_minus))
        dlg = (drh + 2 * EPS * max(1.0, rh)) / one_minus + drh / (1.0 + rh) + 4 * EPS * (1 + lg)
        if dlg >= 0.5:
            return math.inf
        return drh * (1.0 + lg / math.pi) + rh / math.pi * dlg + REL * rh * (1.0 + lg)
    return 2.0 * drh + REL * rh


def rho_tol(kind: str, s: float, m1: float, m2: float, q2: float, err: float) -> float:
    """Absolute bound on the rounding error of a double evaluation of variant `kind`."""
    if kind == "PhaseSpaceFactorSWave":
        return swave_tol(s, m1, m2, q2, err)[0]
    if kind == "EqualMassPhaseSpaceFactor":
        return equal_mass_tol(s, m1, m2, q2, err)
    rs = math.sqrt(abs(s))
    return 2.0 * sqrt_spread(q2, SAFETY * err) / rs + (4 * EPS + REL) * 2.0 * math.sqrt(abs(q2)) / rs


# --------------------------------------------------------------------------- Blatt-Weisskopf
@lru_cache(maxsize=None)
def bw_coeffs(ell: int) -> tuple[Fraction, ...]:
    """a_0..a_L with |x h_L(x)|^2 = sum_j a_j z^-j, z = x^2  (so B_L^2(z) = A(1)/A(z))."""
    c = [
        Fraction(math.factorial(ell + k), math.factorial(ell - k) * math.factorial(k))
        for k in range(ell + 1)
    ]
    # S = sum_k c_k (i y)^k, y = 1/(2x):  Re S = sum_{k even} (-1)^{k/2} c_k y^k, Im S likewise
    re = [Fraction(0)] * (ell + 1)
    im = [Fraction(0)] * (ell + 1)
    for k, ck in enumerate(c):
        if k % 2 == 0:
            re[k] = ck * (-1) ** (k // 2)
        else:
            im[k] = ck * (-1) ** ((k - 1) // 2)
    sq = [Fraction(0)] * (2 * ell + 1)
    for poly in (re, im):
        for i, pi in enumerate(poly):
            if pi == 0:
                continue
            for j, pj in enumerate(poly):
                sq[i + j] += pi * pj
    assert all(sq[n] == 0 for n in range(1, 2 * ell + 1, 2))
    coeffs = tuple(sq[2 * j] / 4**j for j in range(ell + 1))  # y^2 = 1/(4z)
    assert all(a > 0 for a in coeffs)
    return coeffs


def bw_limit(ell: int) -> float:
    """lim_{z->oo} B_L^2(z) = sum_j a_j = |h_L(1)|^2."""
    return float(sum(bw_coeffs(ell)))


def bw2(z: float, ell: int) -> float:
    """Normalised Blatt-Weisskopf factor B_L^2(z) for real z (poles on z<0 give inf/nan)."""
    a = [float(x) for x in bw_coeffs(ell)]
    total = float(sum(bw_coeffs(ell)))
    if z == 0:
        return 1.0 if ell == 0 else 0.0
    if abs(z) >= 1:
        w = 1.0 / z
        den = 0.0
        for coef in reversed(a):  # sum_j a_j w^j
            den = den * w + coef
        return total / den if den != 0 else math.inf
    den = 0.0
    for coef in a:  # sum_j a_j z^{L-j}
        den = den * z + coef
    return total * z**ell / den if den != 0 else math.inf


def bw2_condition(z: float, ell: int) -> float:
    """sum|terms| / |sum terms| of the denominator polynomial (1 for z > 0)."""
    if z >= 0:
        return 1.0
    a = [float(x) for x in bw_coeffs(ell)]
    w = 1.0 / z
    terms = [coef * w**j for j, coef in enumerate(a)]
    tot = abs(math.fsum(terms))
    return math.fsum(abs(t) for t in terms) / tot if tot > 0 else math.inf


def hankel_condition(z: float, ell: int) -> float:
    """(sum_k c_k y^k)^2 / |sum_k c_k (iy)^k|^2 — cancellation inside the Hankel sum (z>0)."""
    y = 0.5 / math.sqrt(z)
    plain = math.fsum(
        math.factorial(ell + k) / (math.factorial(ell - k) * math.factorial(k)) * y**k
        for k in range(ell + 1)
    )
    a = [float(x) for x in bw_coeffs(ell)]
    mod2 = math.fsum(coef / z**j for j, coef in enumerate(a))
    return plain * plain / mod2


# --------------------------------------------------------------------------- Breit-Wigner
def breit_wigner_ref(  # noqa: PLR0913, PLR0917
    s: float,
    m0: float,
    g0: float,
    ma: float,
    mb: float,
    ell: int | None,
    d: float,
    phsp: str,
    form_factor: bool,
    energy_dependent_width: bool,
    dq2_s: float = 0.0,
    dq2_0: float = 0.0,
) -> dict:
    """Relativistic Breit-Wigner for real s > 0.

    BW = m0 G0 [F_L(s)] / (m0^2 - s - i m0 G),  G = G0 (F_L(s)/F_L(m0^2))^2 rho(s)/rho(m0^2)
    (energy dependent) or G0; F_L = sqrt(B_L^2(q^2 d^2)) (principal root).
    `dq2_s`/`dq2_0` shift q^2(s) and q^2(m0^2): used to *measure* the conditioning.
    Returns a dict with value, width, form factor and the denominator.
    """
    out: dict = {"ff2_negative": False}
    s0 = m0**2
    ff = 1.0 + 0j
    width: complex = complex(g0)
    if form_factor or energy_dependent_width:
        q2s = q2_exact(s, ma, mb)[0] + dq2_s
        f2s = bw2(q2s * d**2, ell)
        if form_factor:
            out["ff2_negative"] = f2s < 0
            ff = complex_sqrt(f2s) if math.isfinite(f2s) else complex(math.nan, math.nan)
        if energy_dependent_width:
            q20 = q2_exact(s0, ma, mb)[0] + dq2_0
            f20 = bw2(q20 * d**2, ell)
            rho_s = rho_ref(phsp, s, ma, mb, q2s)
            rho_0 = rho_ref(phsp, s0, ma, mb, q20)
            try:
                width = g0 * (f2s / f20) * (rho_s / rho_0)
            except (ZeroDivisionError, OverflowError):
                width = complex(math.nan, math.nan)
    den = m0**2 - s - 1j * width * m0
    try:
        val = m0 * g0 * ff / den
    except (ZeroDivisionError, OverflowError):
        val = complex(math.nan, math.nan)
    out.update(value=val, width=width, ff=ff, den=den)
    return out


def isfinite(x: complex) -> bool:
    return cmath.isfinite(x)
