"""R2 — helicity frames in plain numpy (no ampform, no sympy).

Documented recursion (``compute_helicity_angles``): in the rest frame of a decaying state,
the frame of a decaying child ``c`` is reached by ``Bz(|p_c|/E_c) Ry(-theta_c) Rz(-phi_c)``.

Which momentum the angle pair *named after the helicity child* of a node denotes
(`designated_child`):

* both children are final-state particles: the named (helicity) child;
* exactly one child decays: that decaying child (pinned by the doctest
  ``theta_0 = Theta(p1 + p2)`` of ``compute_helicity_angles``);
* both children decay: the named child (``get_boost_chain_suffix``: ``phi_12`` belongs to
  the edge with ``p = p1 + p2``).
"""

from __future__ import annotations

import numpy as np

from vp.gen.reactions import attached, children_of
from vp.ref.helicity import angle_names, mass_name


def minkowski_mass(p: np.ndarray) -> np.ndarray:
    m2 = p[:, 0] ** 2 - np.sum(p[:, 1:] ** 2, axis=1)
    return np.sqrt(m2.astype(complex))


def polar(p: np.ndarray) -> tuple[np.ndarray, np.ndarray]:
    """(phi, theta) of the three-momentum."""
    norm = np.sqrt(np.sum(p[:, 1:] ** 2, axis=1))
    phi = np.arctan2(p[:, 2], p[:, 1])
    with np.errstate(invalid="ignore", divide="ignore"):
        theta = np.arccos(np.clip(p[:, 3] / norm, -1.0, 1.0))
    return phi, theta


def to_helicity_frame(p: np.ndarray, ref: np.ndarray) -> np.ndarray:
    """Transform `p` into the helicity frame of `ref` (both given in the current frame)."""
    phi, theta = polar(ref)
    c, s = np.cos(phi), np.sin(phi)
    e, x, y, z = p[:, 0], p[:, 1], p[:, 2], p[:, 3]
    # Rz(-phi)
    x1 = c * x + s * y
    y1 = -s * x + c * y
    # Ry(-theta)
    ct, st = np.cos(theta), np.sin(theta)
    x2 = ct * x1 - st * z
    z2 = st * x1 + ct * z
    # boost along z into the rest frame of ref
    pr = np.sqrt(np.sum(ref[:, 1:] ** 2, axis=1))
    beta = pr / ref[:, 0]
    gamma = 1.0 / np.sqrt(1.0 - beta**2)
    e3 = gamma * (e - beta * z2)
    z3 = gamma * (z2 - beta * e)
    return np.stack([e3, x2, y1, z3], axis=1)


def designated_child(topology, node) -> tuple[int, str]:
    a, b = children_of(topology, node)  # a = helicity child (named), b = opposite
    da = topology.edges[a].ending_node_id is not None
    db = topology.edges[b].ending_node_id is not None
    if da and db:
        return a, "both_decay"
    if db:
        return b, "only_opposite_decays"
    if da:
        return a, "only_named_decays"
    return a, "both_final"


def library_stores(topology, node) -> int:
    """The child whose direction the pinned tree stores under the node's angle names (used
    only to evaluate the known-finding predicate, never as an oracle)."""
    a, b = children_of(topology, node)
    da = topology.edges[a].ending_node_id is not None
    db = topology.edges[b].ending_node_id is not None
    if da and db:
        return max(a, b)
    if db:
        return b
    return a


def reference_kinematics(topology, momenta: dict[int, np.ndarray]):
    """All invariant masses and helicity angles of a topology.

    Returns ``(values, meta)``: ``values[name] = array``; ``meta[angle name] = dict`` with
    the node, the designated child, the node class and a condition estimate.
    """
    values: dict[str, np.ndarray] = {}
    meta: dict[str, dict] = {}
    for e in topology.edges:
        ids = attached(topology, e)
        values[mass_name(topology, e)] = minkowski_mass(sum(momenta[i] for i in ids))

    (init,) = topology.incoming_edge_ids
    root = topology.edges[init].ending_node_id

    def recurse(node, pool, gamma_chain, anc_sin):
        a, b = children_of(topology, node)
        des, kind = designated_child(topology, node)
        p_des = sum(pool[i] for i in attached(topology, des))
        phi, theta = polar(p_des)
        phi_name, theta_name = angle_names(topology, a)
        values[phi_name] = phi
        values[theta_name] = theta
        pnorm = np.sqrt(np.sum(p_des[:, 1:] ** 2, axis=1))
        with np.errstate(divide="ignore", invalid="ignore"):
            cond = gamma_chain * np.maximum(1.0, p_des[:, 0] / pnorm)
            # rounding of the boosts themselves: gamma = 1/sqrt(1-beta^2) loses eps*gamma^2 (matters in a lab frame)
            cond2 = gamma_chain**2 * np.maximum(1.0, p_des[:, 0] / pnorm)
        sib = b if des == a else a
        phi_s, theta_s = polar(sum(pool[i] for i in attached(topology, sib)))
        info = {
            "node": node, "designated": des, "named": a, "kind": kind, "cond": cond, "cond2": cond2,
            # direction of the other child in this frame (the opposite direction only if the parent is at rest)
            "sibling_unit": unit_vector(phi_s, theta_s),
            "stored_by_tree": library_stores(topology, node),
            # smallest |sin(theta)| of the decaying ancestors in their parents' frames: at 0 the
            # azimuth of the ancestor, and with it this frame's x axis, is undefined
            "ancestor_sin": anc_sin,
        }
        meta[phi_name] = info
        meta[theta_name] = info
        for c in (a, b):
            nxt = topology.edges[c].ending_node_id
            if nxt is None:
                continue
            ids = attached(topology, c)
            p_c = sum(pool[i] for i in ids)
            new_pool = {i: to_helicity_frame(pool[i], p_c) for i in ids}
            pc_norm = np.sqrt(np.sum(p_c[:, 1:] ** 2, axis=1))
            m_c = np.sqrt(np.maximum(p_c[:, 0] ** 2 - pc_norm**2, 1e-300))
            _, theta_c = polar(p_c)
            recurse(
                nxt, new_pool, gamma_chain * np.maximum(1.0, p_c[:, 0] / m_c),
                np.minimum(anc_sin, np.abs(np.sin(theta_c))),
            )

    n = len(next(iter(momenta.values())))
    recurse(root, dict(momenta), np.ones(n), np.ones(n))
    return values, meta


def unit_vector(phi, theta):
    return np.stack([np.sin(theta) * np.cos(phi), np.sin(theta) * np.sin(phi), np.cos(theta)], axis=-1)
