"""Three-body kinematics in multi-precision arithmetic (reference side of C19 and C20).

Nothing in this module imports ampform.  Conventions: particle ids 1, 2, 3, parent 0;
``sigma_k = (p_i + p_j)^2`` with ``{i, j, k} = {1, 2, 3}`` (so ``sigma_1 = m_23^2``).
Four-vectors are Python lists ``[E, px, py, pz]`` of ``mpmath.mpf``.

Why mpmath and not numpy doubles: a double-precision boost into the rest frame of a light,
fast pair loses ``~eps*gamma^2`` (1e-10 already at gamma = 1000), which is *worse* than
the closed formulas under test, so the oracle has to be more accurate than they are.  All
inputs are the doubles of the case descriptor, converted exactly; 50 significant digits
make the event exact for every purpose of the checks.
"""

from __future__ import annotations

import mpmath

CTX = mpmath.mp.clone()
CTX.dps = 50
mpf = CTX.mpf
IDS = (1, 2, 3)
PI = CTX.pi


def others(k: int) -> tuple[int, int]:
    i, j = sorted(set(IDS) - {k})
    return i, j


def third(i: int, j: int) -> int:
    return 6 - i - j


def sqrt_kallen_masses(m, a, b):
    """``sqrt(lambda(m^2, a^2, b^2))`` in the factorised form (0 below threshold)."""
    prod = (m - a - b) * (m + a + b) * (m - a + b) * (m + a - b)
    return CTX.sqrt(prod) if prod > 0 else mpf(0)


def kallen(x, y, z):
    return x * x + y * y + z * z - 2 * x * y - 2 * y * z - 2 * z * x


def _rz(a, v):
    c, s = CTX.cos(a), CTX.sin(a)
    return [c * v[0] - s * v[1], s * v[0] + c * v[1], v[2]]


def _ry(a, v):
    c, s = CTX.cos(a), CTX.sin(a)
    return [c * v[0] + s * v[2], v[1], -s * v[0] + c * v[2]]


def rotate(euler, v):
    """Rz(alpha) Ry(beta) Rz(gamma) applied to a 3-vector."""
    alpha, beta, gamma = (mpf(a) for a in euler)
    return _rz(alpha, _ry(beta, _rz(gamma, v)))


def make_event(m0, masses, spectator, x, theta, phi, euler):
    """Momenta ``{1: p1, 2: p2, 3: p3}`` in the parent rest frame.

    The pair (i, j) = ``others(spectator)`` has invariant mass
    ``m_i + m_j + x (m0 - m1 - m2 - m3)``; particle i leaves the pair rest frame under the
    polar angle ``theta`` (azimuth ``phi``) with respect to the pair's line of flight; the
    whole event is rotated by the Euler angles ``euler``.  Returns ``(momenta, m_pair)``.
    """
    k = spectator
    i, j = others(k)
    m0 = mpf(m0)
    mi, mj, mk = mpf(masses[i - 1]), mpf(masses[j - 1]), mpf(masses[k - 1])
    x, theta, phi = mpf(x), mpf(theta), mpf(phi)
    avail = m0 - mi - mj - mk
    mp_ = mi + mj + x * avail
    pk = sqrt_kallen_masses(m0, mp_, mk) / (2 * m0)
    e_pair = CTX.sqrt(mp_ * mp_ + pk * pk)
    q = sqrt_kallen_masses(mp_, mi, mj) / (2 * mp_)
    st, ct = CTX.sin(theta), CTX.cos(theta)
    qv = [q * st * CTX.cos(phi), q * st * CTX.sin(phi), q * ct]
    ei = CTX.sqrt(mi * mi + q * q)
    ej = CTX.sqrt(mj * mj + q * q)
    gamma = e_pair / mp_
    bg = pk / mp_

    def lab(e, v):
        return [gamma * e + bg * v[2], v[0], v[1], gamma * v[2] + bg * e]

    p = {
        i: lab(ei, qv),
        j: lab(ej, [-c for c in qv]),
        k: [CTX.sqrt(mk * mk + pk * pk), mpf(0), mpf(0), -pk],
    }
    for key, vec in p.items():
        p[key] = [vec[0], *rotate(euler, vec[1:])]
    return p, mp_


def add(a, b):
    return [u + v for u, v in zip(a, b)]


def dot3(a, b):
    return a[-3] * b[-3] + a[-2] * b[-2] + a[-1] * b[-1]


def minkowski2(p):
    return p[0] * p[0] - dot3(p, p)


def norm3(p):
    return CTX.sqrt(dot3(p, p))


def angle_between(a, b):
    """Angle in [0, pi] between the 3-vector parts (atan2 form)."""
    a, b = a[-3:], b[-3:]
    cr = [a[1] * b[2] - a[2] * b[1], a[2] * b[0] - a[0] * b[2], a[0] * b[1] - a[1] * b[0]]
    return CTX.atan2(CTX.sqrt(dot3(cr, cr)), dot3(a, b))


def boost_to_rest(p, frame):
    """Components of ``p`` in the rest frame of ``frame`` (pure boost, no rotation)."""
    e_f, f3 = frame[0], frame[1:]
    m_f = CTX.sqrt(minkowski2(frame))
    e_new = (e_f * p[0] - dot3(f3, p)) / m_f
    coeff = (p[0] + e_new) / (e_f + m_f)
    return [e_new, *[u - coeff * v for u, v in zip(p[1:], f3)]]


def pdg_limits(sigma1, m0, m1, m2, m3):
    """Range ``(lo, hi)`` of ``sigma2 = m_13^2`` at fixed ``sigma1 = m_23^2`` (PDG kinematics
    review, Dalitz plot): ``(E1* + E3*)^2 - (p1* +- p3*)^2``, energies and momenta of
    particles 1 and 3 in the (23) rest frame."""
    sigma1, m0, m1, m2, m3 = (mpf(v) for v in (sigma1, m0, m1, m2, m3))
    m23 = CTX.sqrt(sigma1)
    e3 = (sigma1 - m2 * m2 + m3 * m3) / (2 * m23)
    e1 = (m0 * m0 - sigma1 - m1 * m1) / (2 * m23)
    p3 = sqrt_kallen_masses(m23, m2, m3) / (2 * m23)
    p1 = sqrt_kallen_masses(m0, m23, m1) / (2 * m23)
    lo = (e1 + e3) ** 2 - (p1 + p3) ** 2
    hi = (e1 + e3) ** 2 - (p1 - p3) ** 2
    return lo, hi


def kallen_factorised(x, y, z):
    """``(x - (sqrt y + sqrt z)^2) (x - (sqrt y - sqrt z)^2)`` for y, z >= 0."""
    x, y, z = mpf(x), mpf(y), mpf(z)
    sy, sz = CTX.sqrt(y), CTX.sqrt(z)
    return (x - (sy + sz) ** 2) * (x - (sy - sz) ** 2)
