"""Reference helicity formula (R1 applied to transitions), independent of ampform.

Reads only qrules data structures (topology, states, interactions).  Naming of the
kinematic variables is re-implemented from the documented convention
(``get_boost_chain_suffix``: sub-/superscripts made of attached final-state ids; the
initial state is not listed).
"""

from __future__ import annotations

import cmath
import itertools

from vp.gen.reactions import attached, children_of, parent_of
from vp.ref.spin import cg, small_d


def label(topology, eid) -> str:
    return "".join(map(str, attached(topology, eid)))


def chain_suffix(topology, eid) -> str:
    """``_<own label>^<label of parent>,<grandparent>,...`` without the initial state."""
    labels = [label(topology, eid)]
    cur = eid
    while True:
        node = topology.edges[cur].originating_node_id
        if node is None:
            break
        par = parent_of(topology, node)
        if par in topology.incoming_edge_ids:
            break
        labels.append(label(topology, par))
        cur = par
    suffix = f"_{labels[0]}"
    if len(labels) > 1:
        suffix += "^" + ",".join(labels[1:])
    return suffix


def angle_names(topology, eid) -> tuple[str, str]:
    s = chain_suffix(topology, eid)
    return f"phi{s}", f"theta{s}"


def mass_name(topology, eid) -> str:
    return f"m_{label(topology, eid)}"


def node_amplitude(t, node, values, canonical: bool) -> complex:
    """exp(+i m phi) d^J_{m, l1-l2}(theta) [x CG(L0;S l|J l) CG(s1 l1; s2 -l2|S l)]."""
    topology = t.topology
    par = parent_of(topology, node)
    a, b = children_of(topology, node)
    j = t.states[par].particle.spin
    m = t.states[par].spin_projection
    la, lb = t.states[a].spin_projection, t.states[b].spin_projection
    lam = la - lb
    phi_name, theta_name = angle_names(topology, a)
    phi, theta = values[phi_name], values[theta_name]
    val = cmath.exp(1j * float(m) * phi) * small_d(j, m, lam, theta)
    if canonical:
        i = t.interactions[node]
        val *= cg(i.l_magnitude, 0, i.s_magnitude, lam, j, lam)
        val *= cg(t.states[a].particle.spin, la, t.states[b].particle.spin, -lb, i.s_magnitude, lam)
    return val


def chain_amplitude(t, values, canonical: bool) -> complex:
    v = 1.0 + 0j
    for node in sorted(t.topology.nodes):
        v *= node_amplitude(t, node, values, canonical)
    return v


# ----------------------------------------------------------------------- identical particles
def swap_transition(t, mapping: dict[int, int]):
    """Relabel final-state edges of a transition (topology and states move together)."""
    from qrules.topology import FrozenTransition  # noqa: PLC0415

    mapping = {k: v for k, v in mapping.items() if k != v}
    if not mapping:
        return t
    topology = t.topology.relabel_edges(mapping)
    states = {mapping.get(i, i): s for i, s in t.states.items()}
    return FrozenTransition(topology, states, dict(t.interactions))


def identical_groups(t) -> list[list[int]]:
    by_name: dict[str, list[int]] = {}
    for i in sorted(t.topology.outgoing_edge_ids):
        by_name.setdefault(t.states[i].particle.name, []).append(i)
    return [ids for ids in by_name.values() if len(ids) > 1]


def symmetrized_copies(t) -> list:
    """All distinct transitions obtained by permuting identical final-state particles."""
    groups = identical_groups(t)
    if not groups:
        return [t]
    out = []
    per_group = [list(itertools.permutations(g)) for g in groups]
    for combo in itertools.product(*per_group):
        mapping = {}
        for g, perm in zip(groups, combo):
            mapping.update(dict(zip(g, perm)))
        s = swap_transition(t, mapping)
        if s not in out:
            out.append(s)
    return out


def outer_key(t) -> tuple:
    ids = sorted(t.topology.incoming_edge_ids) + sorted(t.topology.outgoing_edge_ids)
    return tuple((i, t.states[i].spin_projection) for i in ids)
