"""CLI: ``python -m vp.run <Cxx> --tier quick|thorough [--replay FILE]``.

Exit 0: the property held on everything explored (known findings are printed as
``KNOWN-FINDING:`` lines); exit 1: ``VIOLATION property=<id> replay=<path>``;
exit 2: harness error (never a verdict about the code under test).
"""
from __future__ import annotations

import argparse
import os
import sys

from vp import harness


def main() -> int:
    ap = argparse.ArgumentParser()
    ap.add_argument("property")
    ap.add_argument("--tier", default=os.environ.get("VERIF_TIER", "quick"))
    ap.add_argument("--replay")
    args = ap.parse_args()
    pid = args.property.upper()
    tier = args.tier if args.tier in {"quick", "thorough"} else "quick"
    if harness.REPO_SRC not in sys.path:
        sys.path.insert(0, harness.REPO_SRC)
    if args.replay:
        return harness.replay(pid, args.replay)
    try:
        seed = int(os.environ.get("VERIF_SEED", "1"))
    except ValueError:
        seed = 1
    try:
        return harness.run_property(pid, tier, seed)
    except Exception:  # noqa: BLE001
        import traceback

        traceback.print_exc()
        return 2


if __name__ == "__main__":
    sys.exit(main())
