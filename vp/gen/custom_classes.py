"""Expression classes defined with the library's ``@unevaluated`` decorator *outside* the
library, the way a user defines custom dynamics: they exercise the decorator machinery
(``__new__``, ``__getnewargs__``, ``_hashable_content``, subs/xreplace) in field layouts that no
class shipped by the library has.  Module level, so that instances can be pickled."""

from __future__ import annotations

import dataclasses as _dataclasses
from typing import Any, ClassVar

import sympy as sp

from ampform.dynamics.phasespace import PhaseSpaceFactor
from ampform.sympy import argument, unevaluated


@unevaluated
class AttrFirst(sp.Expr):
    """A non-sympy attribute declared *before* the sympy arguments."""

    tag: str = argument(sympify=False)
    x: Any
    y: Any

    def evaluate(self) -> sp.Expr:
        return self.x**2 + len(self.tag) * self.y


@unevaluated
class AttrBetween(sp.Expr):
    """A non-sympy attribute between two sympy arguments, one of them with a default."""

    x: Any
    functor: Any = argument(sympify=False)
    y: Any = 3

    def evaluate(self) -> sp.Expr:
        return self.functor(self.x) + self.y


@unevaluated
class DampedPhaseSpaceFactor(PhaseSpaceFactor):
    """Extends a library class that ends with a non-sympy ``name`` by a sympy argument."""

    damping: Any = 1

    def evaluate(self) -> sp.Expr:
        return sp.sqrt(self.s - (self.m1 + self.m2) ** 2) * sp.exp(-self.damping * self.s)


@unevaluated
class WithClassVariables(sp.Expr):
    """Class variables next to instance arguments, with and without a type hint (documented in
    docs/usage/sympy: "Class variables ... are also supported")."""

    x: Any
    tag: str = argument(default="t", sympify=False)
    scale: ClassVar[int] = 3
    offset = 1

    def evaluate(self) -> sp.Expr:
        return self.scale * self.x + self.offset + len(self.tag)


@unevaluated
class TaggedPolynomial(sp.Expr):
    """Polynomial unfolding with a non-SymPy attribute: as a summand of a PoolSum it makes `PoolSum.evaluate`
    substitute index values through the ``_eval_subs`` that the decorator installs on such classes."""

    x: Any
    y: Any
    tag: str = argument(default="t", sympify=False)

    def evaluate(self) -> sp.Expr:
        return self.x**2 + 3 * self.y + len(self.tag)


def half(x):
    return x / 2


def square(x):
    return x**2


@_dataclasses.dataclass
class Scale:
    """A parametrised callable the way a user writes one: a plain dataclass, hence comparable by value
    but *unhashable* (``eq=True`` without ``frozen``) -- the case ``_get_hashable_object`` falls back to
    ``str()`` for."""

    factor: int

    def __call__(self, x):
        return self.factor * x


FUNCTORS = {"half": half, "square": square, "sin": sp.sin, "scale3": Scale(3), "scale5": Scale(5)}


import warnings as _warnings  # noqa: E402

from ampform.sympy.deprecated import (  # noqa: E402
    UnevaluatedExpression as _UnevaluatedExpression,
)
from ampform.sympy.deprecated import create_expression as _create_expression  # noqa: E402
from ampform.sympy.deprecated import implement_doit_method as _implement_doit_method  # noqa: E402

with _warnings.catch_warnings():
    _warnings.simplefilter("ignore")

    @_implement_doit_method
    class DeprecatedPower(_UnevaluatedExpression):
        """Built on the deprecated ``UnevaluatedExpression`` API (name in a slot)."""

        def __new__(cls, x, n, name=None, **hints):
            return _create_expression(cls, x, n, name=name, **hints)

        def evaluate(self):
            x, n = self.args
            return x**n

        def _latex(self, printer, *args):
            return self._name or "P"
