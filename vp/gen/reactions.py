"""G1 — synthetic ``qrules.ReactionInfo`` objects built by construction from descriptors.

A descriptor is a plain dict (see `reaction_strategy`).  `build_reaction` turns it into a
`ReactionInfo` whose transitions follow qrules' own rules:

* helicities of every edge run over -s..s (massless spin>0: only +-s), filtered node by
  node with |l1 - l2| <= J, optionally restricted to drawn subsets for the outer states;
* a *parity conserving* node gets ``parity_prefactor = P P1 P2 (-1)^(J-s1-s2)`` and loses
  the l1 = l2 = 0 transition when that factor is -1 (qrules'
  ``parity_conservation_helicity``); otherwise ``parity_prefactor`` is None;
* canonical formalism: one transition per (L, S) with non-vanishing Clebsch-Gordans,
  ``l_projection = 0``, ``s_projection = l1 - l2``; parity conserving nodes keep only
  P = P1 P2 (-1)^L.

Nothing here imports ampform.
"""

from __future__ import annotations

import itertools
from fractions import Fraction as F

from hypothesis import strategies as st

from vp.ref.spin import cg, spin_range

MASSES = [0.0, 0.135, 0.494, 0.938]
LATEX = [None, "f_{%d}", R"\pi^{+%d}", R"\overline{\Lambda}_{%d}", "K^{*}(89%d)^{0}"]


def latex_of(variant: int, index: int):
    """LaTeX name variants (underscores, braces, carets, parentheses), unique per particle."""
    template = LATEX[variant % len(LATEX)]
    return None if template is None else template % index


# ----------------------------------------------------------------------- strategy
def _final_particle(spin2_max, allow_massless):
    masses = MASSES if allow_massless else MASSES[1:]
    return st.fixed_dictionaries({
        "s2": st.integers(0, spin2_max),
        "P": st.sampled_from([1, -1]),
        "m": st.sampled_from(masses),
        "latex": st.integers(0, len(LATEX) - 1),
    })


def _res(spin_k_max):
    return st.fixed_dictionaries({
        "k": st.integers(0, spin_k_max),
        "P": st.sampled_from([1, -1]),
        "eps": st.sampled_from([0.0, 0.1, 0.3, 0.45]),
        "width": st.sampled_from([0.01, 0.1, 0.3]),
    })


def n_isobar_topologies(n: int) -> int:
    return {2: 1, 3: 1, 4: 2, 5: 5}[n]


def _topo(n, spin_k_max, pc_prob_true=True):
    return st.fixed_dictionaries({
        "idx": st.integers(0, n_isobar_topologies(n) - 1),
        "perm": st.permutations(list(range(n))),
        "res": st.lists(_res(spin_k_max), min_size=n - 2, max_size=n - 2),
        "pc": st.lists(st.booleans(), min_size=n - 1, max_size=n - 1),
    })


def reaction_strategy(  # noqa: PLR0913
    n_final=(2, 3, 4),
    max_topos=3,
    formalisms=("helicity", "canonical-helicity"),
    complete_helicities=False,
    spin2_max=4,
    spin_k_max=2,
    allow_massless=True,
    allow_identical=True,
    max_transitions=48,
):
    def for_n(n):
        return st.fixed_dictionaries({
            "formalism": st.sampled_from(list(formalisms)),
            "n": st.just(n),
            "mu": st.sampled_from([0.1, 0.3, 1.0]),
            "final": st.lists(_final_particle(spin2_max, allow_massless), min_size=n, max_size=n),
            "ident": (
                st.one_of(
                    st.just([]), st.just([]), st.just([]), st.just([]),
                    st.lists(st.integers(0, n - 1), min_size=2, max_size=2, unique=True),
                    st.lists(st.integers(0, n - 1), min_size=2, max_size=3, unique=True),
                )
                if allow_identical
                else st.just([])
            ),
            "initial": _res(spin_k_max),
            "topos": st.lists(_topo(n, spin_k_max), min_size=1, max_size=max_topos if n > 2 else 1),
            "hel_init": st.just(0) if complete_helicities else st.integers(0, 31),
            "hel_final": (
                st.just([0] * n)
                if complete_helicities
                else st.lists(st.sampled_from([0, 0, 0, 1, 2, 3, 5, 6]), min_size=n, max_size=n)
            ),
            "max_transitions": st.just(max_transitions),
        })

    return st.sampled_from(list(n_final)).flatmap(for_n)


# ----------------------------------------------------------------------- building
class Built:
    """Result of `build_reaction`: the ReactionInfo plus what the oracles need."""

    def __init__(self, reaction, particles_by_topology, topologies, desc, clamped):
        self.reaction = reaction
        self.particles_by_topology = particles_by_topology  # list of {edge_id: Particle}
        self.topologies = topologies
        self.desc = desc
        self.clamped = clamped

    @property
    def transitions(self):
        return self.reaction.transitions


def attached(topology, eid) -> tuple[int, ...]:
    e = topology.edges[eid]
    if e.ending_node_id is None:
        return (eid,)
    return tuple(sorted(topology.get_originating_final_state_edge_ids(e.ending_node_id)))


def children_of(topology, node) -> tuple[int, int]:
    """(helicity child, opposite-helicity child): re-derived from the documentation of
    ``is_opposite_helicity_state`` (smaller tuple of attached final-state ids first)."""
    a, b = sorted(topology.get_edge_ids_outgoing_from_node(node))
    if attached(topology, a) > attached(topology, b):
        a, b = b, a
    return a, b


def parent_of(topology, node) -> int:
    (p,) = topology.get_edge_ids_ingoing_to_node(node)
    return p


def intermediate_edges(topology) -> list[int]:
    return sorted(set(topology.edges) - set(topology.incoming_edge_ids) - set(topology.outgoing_edge_ids))


def make_topology(n: int, idx: int, perm):
    from qrules.topology import create_isobar_topologies  # noqa: PLC0415

    base = create_isobar_topologies(n)[idx]
    mapping = {i: p for i, p in enumerate(perm) if i != p}
    if mapping:
        return base.relabel_edges(mapping)
    return base


def _projections(particle) -> list[F]:
    r = spin_range(particle.spin)
    if particle.mass == 0.0 and particle.spin > 0:
        r = [x for x in r if abs(x) == particle.spin]
    return r


def _subset(values: list, mask: int) -> list:
    chosen = [v for i, v in enumerate(values) if (mask >> i) & 1]
    return chosen or list(values)


def _eta(particles, par, a, b) -> int:
    pp, p1, p2 = (int(particles[x].parity) for x in (par, a, b))
    j, s1, s2 = (particles[x].spin for x in (par, a, b))
    return pp * p1 * p2 * (-1) ** int(j - s1 - s2)


def _make_particles(desc, topology, spins, res_params):
    """Particles for every non-initial edge of one topology.

    A resonance is identified by the final states it decays to, so the same resonance
    (same `Particle`) occurs in every topology that contains that sub-system.  Masses:
    sum of the attached final-state masses + (k-1+eps)*mu for a sub-system of k final
    states; eps < 1/2 guarantees that every decay in every topology is above threshold.
    """
    from qrules.particle import Parity, Particle  # noqa: PLC0415

    n = desc["n"]
    mu = desc.get("mu", 0.3)
    particles = {}
    for i in range(n):
        src = source_of(desc, i)
        fd = desc["final"][src]
        particles[i] = Particle(
            name=f"F{src}",
            pid=100 + src,
            latex=latex_of(fd["latex"], src),
            spin=F(spins[("f", src)], 2),
            mass=fd["m"],
            parity=Parity(fd["P"]),
        )
    for e in intermediate_edges(topology):
        att = attached(topology, e)
        if desc.get("twin") and desc["n"] == 4:
            att = (0, 1)  # both resonances are the same particle
        rd = res_params[att]
        mass = sum(particles[i].mass for i in att) + (len(att) - 1 + rd["eps"]) * mu
        tag = "".join(map(str, att))
        particles[e] = Particle(
            name=f"R{tag}",
            pid=1000 + int(tag),
            latex=None,
            spin=F(spins[("r", att)], 2),
            mass=round(mass, 6),
            width=rd["width"],
            parity=Parity(rd["P"]),
        )
    return particles


def source_of(desc, i: int) -> int:
    """Final-state id whose particle definition final state `i` uses (identical particles)."""
    if desc.get("twin") and desc["n"] == 4:
        return i % 2  # twin resonances: final states (0, 2) and (1, 3) are pairwise identical
    ident = list(desc.get("ident", []))
    return min(ident) if i in ident else i


def _half(topology, eid, final_s2) -> int:
    """1 if the edge must have half-integer spin."""
    return sum(final_s2[i] for i in attached(topology, eid)) % 2


def build_reaction(desc, *, max_transitions=None) -> Built | None:  # noqa: C901, PLR0912, PLR0914, PLR0915
    """Descriptor -> Built (None if no transition survives the helicity restrictions)."""
    from qrules.particle import Parity, Particle  # noqa: PLC0415
    from qrules.transition import ReactionInfo  # noqa: PLC0415

    n = desc["n"]
    bound = max_transitions or desc.get("max_transitions", 48)
    if desc.get("twin") and n == 4:  # X -> R R, R -> F0 F1: one topology (01)(23)
        td0 = desc["topos"][0]
        pc = [td0["pc"][0], td0["pc"][1], td0["pc"][1]]  # the same decay conserves parity at both nodes or at none
        desc = dict(desc, topos=[dict(td0, idx=1, perm=[0, 1, 2, 3], pc=pc)], ident=[])
    # topologies (deduplicated)
    # (deduplicated by structure: the sets of final states below the intermediate edges
    # determine an isobar tree; copies that differ only in node numbering are not distinct
    # topologies and qrules never emits them)
    topologies, topo_descs, structures = [], [], set()
    for td in desc["topos"]:
        t = make_topology(n, td["idx"], td["perm"])
        structure = frozenset(attached(t, e) for e in intermediate_edges(t))
        if structure not in structures:
            structures.add(structure)
            topologies.append(t)
            topo_descs.append(td)
    # spins in units of 1/2
    final_s2 = {}
    for i in range(n):
        final_s2[i] = desc["final"][source_of(desc, i)]["s2"]
    spins = {("f", source_of(desc, i)): final_s2[i] for i in range(n)}
    res_params = {}
    for t, td in zip(topologies, topo_descs):
        for pos, e in enumerate(intermediate_edges(t)):
            att = attached(t, e)
            if desc.get("twin") and n == 4:
                att = (0, 1)
            if att not in res_params:  # first topology that contains the sub-system wins
                res_params[att] = td["res"][pos]
                spins[("r", att)] = 2 * td["res"][pos]["k"] + _half(t, e, final_s2)
    init_half = sum(final_s2.values()) % 2
    spins[("i",)] = 2 * desc["initial"]["k"] + init_half
    mu = desc.get("mu", 0.3)

    clamped = 0
    while True:
        all_transitions = []
        particles_by_topology = []
        overflow = False
        for t, td in zip(topologies, topo_descs):
            particles = _make_particles(desc, t, spins, res_params)
            (init_id,) = t.incoming_edge_ids
            init_mass = sum(particles[i].mass for i in range(n)) + (n - 1 + desc["initial"]["eps"]) * mu
            particles[init_id] = Particle(
                name="X",
                pid=99,
                latex=None,
                spin=F(spins[("i",)], 2),
                mass=round(init_mass, 6),
                width=0.0,
                parity=Parity(desc["initial"]["P"]),
            )
            particles_by_topology.append(particles)
            trs = _enumerate_transitions(desc, t, td, particles, bound - len(all_transitions))
            if trs is None:
                overflow = True
                break
            all_transitions.extend(trs)
        if not overflow:
            break
        # clamp: lower the largest spin by one unit and retry
        key = max(spins, key=lambda k: (spins[k], str(k)))
        if spins[key] < 2:
            break
        spins[key] -= 2
        clamped += 1
    if not all_transitions:
        # construction instead of rejection: first drop the helicity-subset restriction,
        # then raise the spins of the decaying states (so that |l1-l2| <= J can be met)
        attempt = desc.get("_attempt", 0)
        if attempt == 0 and (desc.get("hel_init") or any(desc.get("hel_final", []))):
            retry = dict(desc, hel_init=0, hel_final=[0] * n, _attempt=1)
            return build_reaction(retry, max_transitions=max_transitions)
        if attempt <= 3:
            retry = dict(desc, hel_init=0, hel_final=[0] * n, _attempt=attempt + 2)
            retry["initial"] = dict(desc["initial"], k=desc["initial"]["k"] + 1)
            retry["topos"] = [
                dict(td, res=[dict(r, k=r["k"] + 1) for r in td["res"]]) for td in desc["topos"]
            ]
            return build_reaction(retry, max_transitions=max_transitions)
        return None
    reaction = ReactionInfo(transitions=all_transitions, formalism=desc["formalism"])
    return Built(reaction, particles_by_topology, topologies, desc, clamped)


def _enumerate_transitions(desc, topology, td, particles, room):  # noqa: C901, PLR0912, PLR0914
    from qrules.quantum_numbers import InteractionProperties  # noqa: PLC0415
    from qrules.topology import FrozenTransition  # noqa: PLC0415
    from qrules.transition import State  # noqa: PLC0415

    canonical = desc["formalism"] == "canonical-helicity"
    nodes = sorted(topology.nodes)
    (init_id,) = topology.incoming_edge_ids
    ranges = {e: _projections(particles[e]) for e in topology.edges}
    ranges[init_id] = _subset(ranges[init_id], desc.get("hel_init", 0))
    for i in sorted(topology.outgoing_edge_ids):
        src = source_of(desc, i)  # identical particles: same helicity subset
        ranges[i] = _subset(ranges[i], desc.get("hel_final", [0] * desc["n"])[src])
    pc = {node: bool(td["pc"][pos]) for pos, node in enumerate(nodes)}

    def node_options(node, hel):
        par = parent_of(topology, node)
        a, b = children_of(topology, node)
        j = particles[par].spin
        lam = hel[a] - hel[b]
        if abs(lam) > j:
            return None
        eta = None
        if pc[node]:
            eta = _eta(particles, par, a, b)
            if hel[a] == 0 and hel[b] == 0 and eta == -1:
                return None
        pref = None if eta is None else float(eta)
        if not canonical:
            return [InteractionProperties(parity_prefactor=pref)]
        s1, s2 = particles[a].spin, particles[b].spin
        opts = []
        s = abs(s1 - s2)
        while s <= s1 + s2:
            if abs(lam) <= s and cg(s1, hel[a], s2, -hel[b], s, lam) != 0:
                ell = abs(j - s)
                while ell <= j + s:
                    if ell.denominator == 1:
                        allowed = True
                        if pc[node]:
                            pp, p1, p2 = (int(particles[x].parity) for x in (par, a, b))
                            allowed = pp == p1 * p2 * (-1) ** int(ell)
                        if allowed and cg(ell, 0, s, lam, j, lam) != 0:
                            opts.append(
                                InteractionProperties(
                                    l_magnitude=int(ell),
                                    l_projection=0,
                                    s_magnitude=s,
                                    s_projection=lam,
                                    parity_prefactor=pref,
                                )
                            )
                    ell += 1
            s += 1
        return opts or None

    edges = sorted(topology.edges)
    out = []
    for combo in itertools.product(*[ranges[e] for e in edges]):
        hel = dict(zip(edges, combo))
        per_node = []
        for node in nodes:
            o = node_options(node, hel)
            if o is None:
                break
            per_node.append(o)
        else:
            for inter in itertools.product(*per_node):
                states = {e: State(particles[e], hel[e]) for e in edges}
                out.append(FrozenTransition(topology, states, dict(zip(nodes, inter))))
                if len(out) > room:
                    return None
    return out


# ----------------------------------------------------------------------- summaries
def summarize(built: Built) -> dict:
    r = built.reaction
    t0 = r.transitions[0]
    return {
        "n_transitions": len(r.transitions),
        "n_topologies": len(built.topologies),
        "initial_spin": str(next(iter(t0.initial_states.values())).particle.spin),
        "final_spins": [str(t0.states[i].particle.spin) for i in sorted(t0.final_states)],
        "clamped": built.clamped,
    }
