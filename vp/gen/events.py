"""G4 — phase-space events, rotations and parameter points (plain numpy).

Events are generated along an isobar topology by sequential two-body decays: invariant
masses of the sub-systems are drawn between threshold and the available mass with a
controllable closeness to either edge, decay directions are isotropic (or forced onto an
axis).  The result is a dict ``final-state id -> (n, 4)`` array ``(E, px, py, pz)`` in the
rest frame of the initial state.  Every such event is physical for *any* topology on the
same final state.
"""

from __future__ import annotations

import math

import numpy as np


def boost_from_rest(p: np.ndarray, frame: np.ndarray) -> np.ndarray:
    """Boost `p` (n,4), given in the rest frame of `frame`, to where `frame` has its momentum."""
    m = np.sqrt(np.maximum(frame[:, 0] ** 2 - np.sum(frame[:, 1:] ** 2, axis=1), 0.0))
    b = frame[:, 1:] / frame[:, [0]]
    g = frame[:, 0] / m
    bp = np.sum(b * p[:, 1:], axis=1)
    b2 = np.sum(b * b, axis=1)
    energy = g * (p[:, 0] + bp)
    safe = np.where(b2 > 0, b2, 1.0)
    fac = np.where(b2 > 0, (g - 1) * bp / safe, 0.0) + g * p[:, 0]
    space = p[:, 1:] + fac[:, None] * b
    return np.concatenate([energy[:, None], space], axis=1)


def _attached(topology, eid):
    e = topology.edges[eid]
    if e.ending_node_id is None:
        return (eid,)
    return tuple(sorted(topology.get_originating_final_state_edge_ids(e.ending_node_id)))


def generate_events(topology, final_masses: dict[int, float], total_mass: float, n: int, seed: int,
                    edge: float = 0.02, axis_aligned: bool = False) -> dict[int, np.ndarray]:
    """Sequential decays along `topology`.

    `edge`: invariant masses are drawn in [thr + edge*w, thr + (1-edge)*w], w = available
    width (edge -> 0 reaches thresholds).  `axis_aligned`: decay directions along +-z/x/y.
    """
    rng = np.random.default_rng(seed)
    (init_id,) = topology.incoming_edge_ids
    out: dict[int, np.ndarray] = {}
    p_init = np.zeros((n, 4))
    p_init[:, 0] = total_mass

    def thr(eid) -> float:
        return float(sum(final_masses[i] for i in _attached(topology, eid)))

    def decay(eid, p_e, m_e):
        node = topology.edges[eid].ending_node_id
        if node is None:
            out[eid] = p_e
            return
        a, b = sorted(topology.get_edge_ids_outgoing_from_node(node))
        # draw child masses
        masses = {}
        avail = m_e - thr(a) - thr(b)
        avail = np.maximum(avail, 0.0)
        remaining = avail
        for c in (a, b):
            if topology.edges[c].ending_node_id is None:
                masses[c] = np.full(n, final_masses[c])
            else:
                u = rng.uniform(edge, 1.0 - edge, n)
                extra = remaining * u
                masses[c] = thr(c) + extra
                remaining = remaining - extra
        ma, mb = masses[a], masses[b]
        q2 = (m_e**2 - (ma + mb) ** 2) * (m_e**2 - (ma - mb) ** 2) / (4 * m_e**2)
        q = np.sqrt(np.maximum(q2, 0.0))
        if axis_aligned:
            axes = np.array([[0, 0, 1], [0, 0, -1], [1, 0, 0], [-1, 0, 0], [0, 1, 0], [0, -1, 0]], dtype=float)
            d = axes[rng.integers(0, 6, n)]
        else:
            cos = rng.uniform(-1, 1, n)
            phi = rng.uniform(-np.pi, np.pi, n)
            sin = np.sqrt(1 - cos**2)
            d = np.stack([sin * np.cos(phi), sin * np.sin(phi), cos], axis=1)
        pa = np.concatenate([np.sqrt(q**2 + ma**2)[:, None], q[:, None] * d], axis=1)
        pb = np.concatenate([np.sqrt(q**2 + mb**2)[:, None], -q[:, None] * d], axis=1)
        decay(a, boost_from_rest(pa, p_e), ma)
        decay(b, boost_from_rest(pb, p_e), mb)

    decay(init_id, p_init, np.full(n, float(total_mass)))
    return out


# ----------------------------------------------------------------------- rotations
def rz(t):
    return np.array([[math.cos(t), -math.sin(t), 0], [math.sin(t), math.cos(t), 0], [0, 0, 1.0]])


def ry(t):
    return np.array([[math.cos(t), 0, math.sin(t)], [0, 1.0, 0], [-math.sin(t), 0, math.cos(t)]])


def rx(t):
    return np.array([[1.0, 0, 0], [0, math.cos(t), -math.sin(t)], [0, math.sin(t), math.cos(t)]])


def euler(a, b, c):
    return rz(a) @ ry(b) @ rz(c)


def rotate(momenta: dict[int, np.ndarray], rot: np.ndarray) -> dict[int, np.ndarray]:
    return {i: np.concatenate([p[:, [0]], p[:, 1:] @ rot.T], axis=1) for i, p in momenta.items()}


def invariant_mass(p: np.ndarray) -> np.ndarray:
    return np.sqrt(np.maximum(p[:, 0] ** 2 - np.sum(p[:, 1:] ** 2, axis=1), 0.0))
