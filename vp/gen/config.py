"""G3 — builder configurations, and turning (reaction descriptor, configuration) into a
configured ``HelicityAmplitudeBuilder``.

Configuration descriptor::

    {"stable": None | [final ids], "scalar_initial": bool, "helicity_couplings": bool,
     "alignment": "none" | "axisangle" | "dpd1" | "dpd2" | "dpd3",
     "parent_hel": bool, "child_hel": bool | None, "ls": bool,
     "permutate": bool, "dynamics": [[selector_kind, target_index, builder_index], ...]}

``child_hel=None`` keeps the formalism's default (helicity: True, canonical: False).
"""

from __future__ import annotations

import copy

from hypothesis import strategies as st

from vp.gen.reactions import Built, build_reaction
from vp.harness import under_test

BUILDER_NAMES = [
    "non_dynamic",
    "non_dynamic_with_ff",
    "relativistic_breit_wigner",
    "relativistic_breit_wigner_with_ff",
    "analytic_breit_wigner",
    "bw_edw_noff_phsp_abs",
    "bw_ff_only_complex",
    "bw_edw_ff_swave",
]

FF_CONTRACT_MESSAGE = "Angular momentum is not defined"


def get_dynamics_builder(index: int):
    from ampform.dynamics import builder as b  # noqa: PLC0415
    from ampform.dynamics import phasespace as ps  # noqa: PLC0415

    name = BUILDER_NAMES[index % len(BUILDER_NAMES)]
    table = {
        "non_dynamic": lambda: b.create_non_dynamic,
        "non_dynamic_with_ff": lambda: b.create_non_dynamic_with_ff,
        "relativistic_breit_wigner": lambda: b.create_relativistic_breit_wigner,
        "relativistic_breit_wigner_with_ff": lambda: b.create_relativistic_breit_wigner_with_ff,
        "analytic_breit_wigner": lambda: b.create_analytic_breit_wigner,
        "bw_edw_noff_phsp_abs": lambda: b.RelativisticBreitWignerBuilder(
            form_factor=False, energy_dependent_width=True, phsp_factor=ps.PhaseSpaceFactorAbs
        ),
        "bw_ff_only_complex": lambda: b.RelativisticBreitWignerBuilder(
            form_factor=True, energy_dependent_width=False, phsp_factor=ps.PhaseSpaceFactorComplex
        ),
        "bw_edw_ff_swave": lambda: b.RelativisticBreitWignerBuilder(
            form_factor=True, energy_dependent_width=True, phsp_factor=ps.PhaseSpaceFactorSWave
        ),
    }
    return name, table[name]()


def config_strategy(rdesc, *, alignments=("none", "none", "none", "none", "none", "axisangle", "dpd", "dpd"), dynamics=True):
    n = rdesc["n"]
    align_choices = []
    for a in alignments:
        if a == "dpd":
            if n == 3:
                align_choices.append(["dpd1", "dpd2", "dpd3"])
        else:
            align_choices.append(a)
    dyn = (
        st.lists(
            st.tuples(st.sampled_from(["name", "particle", "node"]), st.integers(0, 7), st.integers(0, 7)).map(list),
            max_size=3,
        )
        if dynamics
        else st.just([])
    )
    return st.fixed_dictionaries({
        "stable": st.one_of(st.none(), st.lists(st.integers(0, n - 1), unique=True, max_size=n).map(sorted)),
        "scalar_initial": st.booleans(),
        "helicity_couplings": st.booleans(),
        "alignment": st.sampled_from(align_choices).flatmap(
            lambda a: st.sampled_from(a) if isinstance(a, list) else st.just(a)
        ),
        "parent_hel": st.booleans(),
        "child_hel": st.sampled_from([None, None, True, False]),
        "ls": st.booleans(),
        "permutate": st.booleans(),
        "dynamics": dyn,
    })


DEFAULT_CONFIG = {
    "stable": None, "scalar_initial": False, "helicity_couplings": False, "alignment": "none",
    "parent_hel": False, "child_hel": None, "ls": True, "permutate": False, "dynamics": [],
}


def effective_reaction_desc(rdesc, config):
    """Axis-angle sums grow like (2s+1)^(rotations) per final state: keep them affordable
    by construction (final-state spins 0, 1/2, 1 or 3/2 -> <= 3/2 reduced to <= 1; at most two
    spin-1 final states for n <= 3, one for n >= 4)."""
    if config["alignment"] != "axisangle":
        return rdesc
    rdesc = copy.deepcopy(rdesc)
    # number of final states that may keep spin 1
    budget = config.get("axisangle_spin1_budget", 2 if rdesc["n"] <= 3 else 1)
    for fd in rdesc["final"]:
        fd["s2"] = fd["s2"] % 2 + (2 if fd["s2"] >= 2 else 0)  # spin <= 1 (3/2 -> 1/2 ... )
        if fd["s2"] >= 2:
            if budget > 0:
                budget -= 1
            else:
                fd["s2"] %= 2
    rdesc["max_transitions"] = min(rdesc.get("max_transitions", 48), 24)
    return rdesc


class Prepared:
    def __init__(self, built: Built, reaction, builder, config, notes) -> None:
        self.built = built
        self.reaction = reaction  # possibly relabelled for DPD
        self.builder = builder
        self.config = config
        self.notes = notes
        self.id_offset = 1 if config["alignment"].startswith("dpd") else 0


def prepare(rdesc, config, relabel: bool | None = None) -> Prepared | None:
    """Build the reaction and a configured builder.  None: no transitions.

    `relabel`: build on the reaction relabelled with ``relabel_edge_ids`` (final-state ids
    1..3); default: only for DPD, whose documented precondition it is.
    """
    rdesc = effective_reaction_desc(rdesc, config)
    built = build_reaction(rdesc)
    if built is None:
        return None
    if relabel is None:
        relabel = config["alignment"].startswith("dpd")
    reaction, builder = make_builder(built, relabel)
    prepared = Prepared(built, reaction, builder, config, [])
    prepared.id_offset = 1 if relabel else 0
    apply_config(builder, reaction, config, prepared.id_offset, prepared.notes)
    return prepared


def make_builder(built: Built, relabel: bool):
    import ampform  # noqa: PLC0415
    from ampform.helicity.align.dpd import relabel_edge_ids  # noqa: PLC0415

    reaction = built.reaction
    if relabel:
        reaction = under_test("relabel_edge_ids", relabel_edge_ids, reaction)
    return reaction, under_test("get_builder", ampform.get_builder, reaction)


def set_alignment(builder, align: str) -> None:
    from ampform.helicity.align import NoAlignment  # noqa: PLC0415
    from ampform.helicity.align.axisangle import AxisAngleAlignment  # noqa: PLC0415
    from ampform.helicity.align.dpd import DalitzPlotDecomposition  # noqa: PLC0415

    if align == "axisangle":
        builder.config.spin_alignment = AxisAngleAlignment()
    elif align.startswith("dpd"):
        builder.config.spin_alignment = DalitzPlotDecomposition(reference_subsystem=int(align[3]))
    else:
        builder.config.spin_alignment = NoAlignment()


def apply_config(builder, reaction, config, offset: int, notes: list) -> None:
    """Put a builder into the state described by a configuration descriptor."""
    set_alignment(builder, config["alignment"])
    if config["stable"] is not None:
        builder.config.stable_final_state_ids = [i + offset for i in config["stable"]]
    else:
        builder.config.stable_final_state_ids = None
    builder.config.scalar_initial_state_mass = bool(config["scalar_initial"])
    builder.config.use_helicity_couplings = bool(config["helicity_couplings"])
    builder.naming.insert_parent_helicities = bool(config["parent_hel"])
    if config["child_hel"] is not None:
        builder.naming.insert_child_helicities = bool(config["child_hel"])
    if reaction.formalism == "canonical-helicity":
        builder.naming.insert_ls_combinations = bool(config["ls"])
    if config["permutate"]:
        under_test("permutate_registered_topologies", builder.adapter.permutate_registered_topologies)
    apply_dynamics(builder, reaction, config["dynamics"], notes)


def decaying_particles(reaction) -> list:
    """Distinct particles that decay somewhere (initial state and resonances), by name."""
    seen = {}
    for t in reaction.transitions:
        for node in sorted(t.topology.nodes):
            (pid,) = t.topology.get_edge_ids_ingoing_to_node(node)
            p = t.states[pid].particle
            seen.setdefault(p.name, p)
    return [seen[k] for k in sorted(seen)]


def apply_dynamics(builder, reaction, assignments, notes) -> None:
    parents = decaying_particles(reaction)
    for kind, target, bidx in assignments:
        name, dyn = get_dynamics_builder(bidx)
        if kind in {"name", "particle"}:
            particle = parents[target % len(parents)]
            selection = particle.name if kind == "name" else particle
            notes.append(f"assign({kind}:{particle.name},{name})")
        else:
            transitions = reaction.transitions
            t = transitions[target % len(transitions)]
            nodes = sorted(t.topology.nodes)
            node = nodes[(target // 3) % len(nodes)]
            selection = (t, node)
            notes.append(f"assign(node:{target % len(transitions)}/{node},{name})")
        under_test("dynamics.assign", builder.dynamics.assign, selection, dyn)


def formulate(prepared: Prepared):
    """formulate(); the documented ValueError of form-factor builders without L is re-raised
    as `FormFactorContract`."""
    try:
        return under_test("formulate", prepared.builder.formulate, allowed=(ValueError,))
    except ValueError as exc:
        if FF_CONTRACT_MESSAGE in str(exc):
            raise FormFactorContract(str(exc)) from exc
        from vp.harness import UnderTestError  # noqa: PLC0415

        raise UnderTestError("formulate", exc) from exc


class FormFactorContract(Exception):
    """Form-factor builders need an angular momentum (documented ValueError)."""
