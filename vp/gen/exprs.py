"""G5 — instances of every expression class the ``ampform`` package defines.

Discovery
---------
`discover()` walks every module of the ``ampform`` package (``pkgutil.walk_packages``) and
collects the classes *defined there* that derive from ``sympy.Basic``.  Nothing is listed by
hand, so classes added later are picked up.

Recipes
-------
Every class needs arguments of the right *kind* for ``evaluate()``/``doit()``/``lambdify`` to
be meaningful.  `RECIPES` gives the kind of each dataclass field (``@unevaluated`` classes)
or a custom builder (``PoolSum``, array helpers, ...).  A discovered class that is not in the
table (or whose fields no longer match the table) gets the *generic* recipe: every sympy
field is a real scalar, non-sympy fields get ``name``/``phsp_factor`` values by name or
their default.  Classes that cannot be instantiated are never dropped silently: see
`inventory()`.

Kinds
-----
``scalar``  real scalar: symbol | rational | float | small arithmetic | nested *real-valued* class
``cscalar`` complex scalar: anything of kind ``scalar`` or a nested complex-valued class
            (``PhaseSpaceFactor`` below threshold, ``ComplexSqrt``, ...). Only the polynomial /
            rational classes (``Kallen``, ``Kibble``, ``BreakupMomentumSquared``) take ``cscalar``
            arguments: every other class orders its arguments (``x < 0``) or takes roots and
            logarithms of them, which is only defined for real input.
``nonnum``  real scalar that is not a bare number (``ComplexSqrt(number)`` evaluates at once)
``L``       angular momentum: integer 0..4 | integer symbol
``p4``      four-momentum array of shape (n, 4): ``ArraySymbol(name, shape=[])`` (this is
            what ``ampform.kinematics.lorentz.FourMomentumSymbol`` is), ``ArraySum``,
            ``NegativeMomentum``, ``ArrayMultiplication(matrix..., p4)``
``arrsym``  a bare array symbol
``v3``      (n, 3) array: ``ThreeMomentum(p4)`` | ``ArraySlice(p4, (:, 1:))``
``ev``      event-wise scalar (n,): symbol | ``Energy(p4)`` | ``Phi(p4)`` | ...
``beta``    event-wise velocity in (-1, 1): symbol | |p|/E of a four-momentum
``n``       number of events: ``ArraySize(arrsym)``
``ones`` / ``zeros``  ``_OnesArray(n)`` / ``_ZerosArray(n)``
``mat``     (n, 4, 4): ``BoostMatrix(p4)``, ``BoostZMatrix(beta, n)``, rotations, ...

Descriptors (JSON)
------------------
``["sym", name]`` ``["lsym", name]`` ``["idx", name]`` ``["arr", name]`` ``["num", "3/2"]``
``["flt", 1.5]`` ``["int", 2]`` ``["add", a, b]`` ``["mul", a, b]`` ``["div", a, b]``
``["pow", a, k]`` ``["neg", a]`` and ``["cls", ClassName, [argument trees], {extra}]`` where
``extra`` holds the non-sympy attributes (``name``, ``phsp_factor``) and the structural
parameters of the helper classes (``indices``, ``axis``, ``var``).

`build(tree)` reconstructs the sympy object; `instances(max_depth)` is the Hypothesis
strategy of ``["cls", ...]`` descriptors (top-level class drawn uniformly over the discovered
classes, arguments nested up to `max_depth` library classes deep).
"""

from __future__ import annotations

import dataclasses
import functools
import hashlib
import importlib
import inspect
import json
import pkgutil
from typing import Any, Callable

# --------------------------------------------------------------------------- symbol pools
# the name encodes the assumptions, so one name never denotes two different symbols
SCALAR_SYMBOLS: dict[str, dict] = {
    "x": {},
    "y": {},
    "z": {},
    "a_r": {"real": True},
    "c_r": {"real": True},
    "s_p": {"positive": True},
    "m_p": {"positive": True},
    "w_p": {"positive": True},
    "m_n": {"nonnegative": True},
    "g_n": {"nonnegative": True},
}
EV_SYMBOLS: dict[str, dict] = {"phi_r": {"real": True}, "th_r": {"real": True}, "e1": {}}
BETA_SYMBOLS: dict[str, dict] = {"b1": {"real": True}, "b2": {"real": True}}
FRESH_SYMBOLS: dict[str, dict] = {
    **{f"u{i}": {} for i in range(3)},
    **{f"u{i}_r": {"real": True} for i in range(3)},
    **{f"u{i}_n": {"nonnegative": True} for i in range(3)},
    **{f"u{i}_p": {"positive": True} for i in range(3)},
    "q_new": {},
    "nohit": {},
}
ALL_SYMBOLS = {**SCALAR_SYMBOLS, **EV_SYMBOLS, **BETA_SYMBOLS, **FRESH_SYMBOLS}
L_SYMBOLS = ["L", "L2", "Lf", "Lnew"]
ARRAY_SYMBOLS = ["p0", "p1", "p2", "p3"]
FRESH_ARRAYS = ["k0", "k1", "pnew", "pnohit"]
INDEX_SYMBOLS = ["i", "j", "t", "k"]
NUMS = ["1", "2", "3", "1/2", "3/2", "5/7", "7/3", "1/4"]
FLOATS = [0.25, 1.5, 2.75, 0.3]
NAMES = [None, "N", r"\rho_1", "q^2_x"]

ASSUMPTION_RANK = {"": 0, "real": 1, "nonnegative": 2, "positive": 3}


def symbol_tag(name: str) -> str:
    """'' | 'real' | 'nonnegative' | 'positive' for a scalar symbol name of the pools."""
    asm = ALL_SYMBOLS.get(name, {})
    for tag in ("positive", "nonnegative", "real"):
        if asm.get(tag):
            return tag
    return ""


# --------------------------------------------------------------------------- discovery
ABSTRACT = {
    "NumPyPrintable": "abstract interface (abstract _numpycode); covered through its subclasses",
    "UnevaluatedExpression": "deprecated abstract base (abstract evaluate); the package defines no subclass",
}


@functools.lru_cache(maxsize=1)
def discover() -> dict[str, type]:
    """short name -> class, for every sympy.Basic subclass defined inside ampform."""
    import ampform  # noqa: PLC0415
    import sympy as sp  # noqa: PLC0415

    found: dict[tuple[str, str], type] = {}
    failures = {}
    for info in pkgutil.walk_packages(ampform.__path__, "ampform."):
        try:
            mod = importlib.import_module(info.name)
        except Exception as exc:  # noqa: BLE001
            failures[info.name] = f"{type(exc).__name__}: {exc}"[:200]
            continue
        for obj in list(vars(mod).values()):
            if inspect.isclass(obj) and issubclass(obj, sp.Basic) and obj.__module__ == mod.__name__:
                found[obj.__module__, obj.__qualname__] = obj
    _IMPORT_FAILURES.clear()
    _IMPORT_FAILURES.update(failures)
    short: dict[str, list] = {}
    for (module, qual), cls in found.items():
        short.setdefault(qual, []).append((module, cls))
    out = {}
    for qual, lst in short.items():
        if len(lst) == 1:
            out[qual] = lst[0][1]
        else:
            for module, cls in lst:
                out[f"{module}.{qual}"] = cls
    return dict(sorted(out.items()))


_IMPORT_FAILURES: dict[str, str] = {}


def import_failures() -> dict[str, str]:
    discover()
    return dict(_IMPORT_FAILURES)


def is_library_class(cls) -> bool:
    return getattr(cls, "__module__", "").split(".")[0] == "ampform"


def sympy_fields(cls) -> list[str]:
    if not dataclasses.is_dataclass(cls):
        return []
    return [f.name for f in dataclasses.fields(cls) if f.metadata.get("sympify")]


def nonsympy_fields(cls) -> list[str]:
    if not dataclasses.is_dataclass(cls):
        return []
    return [f.name for f in dataclasses.fields(cls) if not f.metadata.get("sympify")]


SYMBOLIC_POOL_VALUES = False
"""Set by a check (before drawing): index pools may contain the symbols y, z besides rationals."""

INCLUDE_CLOSURES = False
"""Set by a check (before drawing) to add phase-space factors that are *closures*: distinct
functions from one factory, i.e. equal ``__module__`` and ``__qualname__`` (not picklable, so only
checks that do not pickle enable them)."""


def _make_closure_phsp(weight: int):
    def rho(s, m1, m2):
        import sympy as sp  # noqa: PLC0415

        return weight * sp.sqrt(s - (m1 + m2) ** 2) / (weight + sp.sqrt(s))

    return rho


_CLOSURES = {"closure_phsp_1": _make_closure_phsp(1), "closure_phsp_2": _make_closure_phsp(2)}


def phsp_factors() -> dict[str, Any]:
    out = dict(_library_phsp_factors())
    if INCLUDE_CLOSURES:
        out.update(_CLOSURES)
    return out


@functools.lru_cache(maxsize=1)
def _library_phsp_factors() -> dict[str, Any]:
    """name -> callable complying with PhaseSpaceFactorProtocol (found by introspection:
    unevaluated classes whose sympy fields are exactly (s, m1, m2), plus the documented
    function ``chew_mandelstam_s_wave``)."""
    out = {}
    for name, cls in discover().items():
        if sympy_fields(cls) == ["s", "m1", "m2"]:
            out[name] = cls
    try:
        from ampform.dynamics.phasespace import chew_mandelstam_s_wave  # noqa: PLC0415

        out["chew_mandelstam_s_wave"] = chew_mandelstam_s_wave
    except ImportError:
        pass
    return out


# --------------------------------------------------------------------------- recipes
@dataclasses.dataclass(frozen=True)
class Recipe:
    name: str
    kinds: tuple  # kind of each positional (sympy) argument; () for variants-only recipes
    returns: str
    source: str  # "table" | "generic" | "custom"
    variants: tuple = ()  # custom: tuple of (arg kinds, extra dict, returns)
    nonsympy: tuple = ()  # names of non-sympy fields


_P4 = {"momentum": "p4"}
_SMM = {"s": "scalar", "m1": "scalar", "m2": "scalar"}
_CSMM = {"s": "cscalar", "m1": "cscalar", "m2": "cscalar"}
# polynomial / rational classes: complex arguments are fine; real arguments give a real value
POLYNOMIAL = {"Kallen", "Kibble", "BreakupMomentumSquared"}
_ROT_IMPL = {"angle": "ev", "cos_angle": "ev", "sin_angle": "ev", "ones": "ones", "zeros": "zeros"}

# dataclass (@unevaluated) classes: field -> kind, return kind
FIELD_RECIPES: dict[str, tuple[dict, str]] = {
    "Energy": (_P4, "ev"),
    "FourMomentumX": (_P4, "ev"),
    "FourMomentumY": (_P4, "ev"),
    "FourMomentumZ": (_P4, "ev"),
    "ThreeMomentum": (_P4, "v3"),
    "EuclideanNorm": ({"vector": "v3"}, "ev"),
    "EuclideanNormSquared": ({"vector": "v3"}, "ev"),
    "InvariantMass": (_P4, "ev"),
    "NegativeMomentum": (_P4, "p4"),
    "MinkowskiMetric": (_P4, "mat"),
    "BoostMatrix": (_P4, "mat"),
    "BoostZMatrix": ({"beta": "beta", "n_events": "n"}, "mat"),
    "RotationYMatrix": ({"angle": "ev", "n_events": "n"}, "mat"),
    "RotationZMatrix": ({"angle": "ev", "n_events": "n"}, "mat"),
    "_BoostZMatrixImplementation": (
        {"beta": "beta", "gamma": "ev", "gamma_beta": "ev", "ones": "ones", "zeros": "zeros"},
        "mat",
    ),
    "_BoostMatrixImplementation": (
        {"momentum": "p4", **{k: "ev" for k in ("b00", "b01", "b02", "b03", "b11", "b12", "b13", "b22", "b23", "b33")}},
        "mat",
    ),
    "_RotationYMatrixImplementation": (_ROT_IMPL, "mat"),
    "_RotationZMatrixImplementation": (_ROT_IMPL, "mat"),
    "_OnesArray": ({"shape": "n"}, "ones"),
    "_ZerosArray": ({"shape": "n"}, "zeros"),
    "ArraySize": ({"array": "arrsym"}, "n"),
    "Phi": (_P4, "ev"),
    "Theta": (_P4, "ev"),
    "Kallen": ({"x": "cscalar", "y": "cscalar", "z": "cscalar"}, "cscalar"),
    "Kibble": ({k: "cscalar" for k in ("sigma1", "sigma2", "sigma3", "m0", "m1", "m2", "m3")}, "cscalar"),
    "BreakupMomentumSquared": (_CSMM, "cscalar"),
    "PhaseSpaceFactor": (_SMM, "cscalar"),
    "PhaseSpaceFactorAbs": (_SMM, "scalar"),
    "PhaseSpaceFactorComplex": (_SMM, "cscalar"),
    "PhaseSpaceFactorSWave": (_SMM, "cscalar"),
    "EqualMassPhaseSpaceFactor": (_SMM, "cscalar"),
    "FormFactor": ({**_SMM, "angular_momentum": "L", "meson_radius": "scalar"}, "cscalar"),
    "BlattWeisskopfSquared": ({"z": "scalar", "angular_momentum": "L"}, "scalar"),
    "SphericalHankel1": ({"l": "L", "z": "scalar"}, "cscalar"),
    "EnergyDependentWidth": (
        {
            "s": "scalar", "mass0": "scalar", "gamma0": "scalar", "m_a": "scalar", "m_b": "scalar",
            "angular_momentum": "L", "meson_radius": "scalar",
        },
        "cscalar",
    ),
}

# helper classes that are not dataclasses: variants of (argument kinds, extra, return kind)
CUSTOM_RECIPES: dict[str, tuple] = {
    "ComplexSqrt": ((("nonnum",), {}, "cscalar"),),
    "PoolSum": (
        (("poolbody1",), {"indices": "pool1"}, "scalar"),
        (("poolbody2",), {"indices": "pool2"}, "scalar"),
    ),
    "UnevaluatableIntegral": ((("intbody", "lo", "hi"), {"var": "t"}, "scalar"),),
    "_SymbolicSum": ((("sumbody", "L"), {"var": "k"}, "scalar"),),
    "ArraySum": ((("p4", "p4"), {}, "p4"), (("p4", "p4", "p4"), {}, "p4")),
    "ArraySlice": (
        (("p4",), {"indices": [":", 0]}, "ev"),
        (("p4",), {"indices": [":", 3]}, "ev"),
        (("p4",), {"indices": [":", "1:"]}, "v3"),
        (("mat",), {"indices": [":", 1, 3]}, "ev"),
        (("mat",), {"indices": [":", 3, 3]}, "ev"),
    ),
    "ArrayElement": ((("arrsym",), {"indices": [0, 1]}, "elem"), (("arrsym",), {"indices": [1, 3]}, "elem")),
    "ArrayAxisSum": (
        (("v3sq",), {"axis": 1}, "ev"),
        (("v3",), {"axis": 1}, "ev"),
        (("p4",), {"axis": 1}, "ev"),
        (("v3",), {"axis": None}, "elem"),
    ),
    "ArrayMultiplication": ((("mat", "p4"), {}, "p4"), (("mat", "mat", "p4"), {}, "p4")),
    "MatrixMultiplication": ((("mat", "mat"), {}, "mat"), (("mat", "mat", "mat"), {}, "mat")),
}


@functools.lru_cache(maxsize=1)
def recipes() -> dict[str, Recipe]:
    out = {}
    for name, cls in discover().items():
        if name in ABSTRACT:
            continue
        if name in CUSTOM_RECIPES and not dataclasses.is_dataclass(cls):
            out[name] = Recipe(name, (), "", "custom", variants=CUSTOM_RECIPES[name])
            continue
        if dataclasses.is_dataclass(cls):
            fields = sympy_fields(cls)
            table = FIELD_RECIPES.get(name)
            if table is not None and list(table[0]) == fields:
                kinds, returns, source = tuple(table[0][f] for f in fields), table[1], "table"
            else:
                kinds, returns, source = tuple("scalar" for _ in fields), "scalar", "generic"
            out[name] = Recipe(name, kinds, returns, source, nonsympy=tuple(nonsympy_fields(cls)))
            continue
        # unknown non-dataclass class: guess the number of positional arguments
        n_args = _guess_arity(cls)
        out[name] = Recipe(name, tuple("scalar" for _ in range(n_args)), "scalar", "generic")
    return out


def _guess_arity(cls) -> int:
    try:
        params = list(inspect.signature(cls.__new__).parameters.values())[1:]
    except (TypeError, ValueError):
        return 2
    n = sum(
        1
        for p in params
        if p.kind in {p.POSITIONAL_ONLY, p.POSITIONAL_OR_KEYWORD} and p.default is p.empty
    )
    if n == 0 and any(p.kind is p.VAR_POSITIONAL for p in params):
        return 2
    return max(n, 1)


def signature_key(name: str):
    """Classes with the same key can be swapped for one another in a descriptor."""
    rec = recipes()[name]
    if rec.source == "custom":
        return None
    kinds = tuple("scalar" if k == "cscalar" else k for k in rec.kinds)
    returns = "scalar" if rec.returns == "cscalar" else rec.returns
    return (kinds, returns, rec.nonsympy)


# --------------------------------------------------------------------------- building
_DUMMIES: dict[str, Any] = {}


def _symbol(name: str):
    import sympy as sp  # noqa: PLC0415

    return sp.Symbol(name, **ALL_SYMBOLS.get(name, {}))


def _lsymbol(name: str):
    import sympy as sp  # noqa: PLC0415

    return sp.Symbol(name, integer=True, nonnegative=True)


def _index(name: str):
    import sympy as sp  # noqa: PLC0415

    if name == "k":
        # summation variable of _SymbolicSum: the library uses a Dummy (its doit() treats every
        # non-Dummy symbol of the limits, the variable included, as "symbolic limit")
        if name not in _DUMMIES:
            _DUMMIES[name] = sp.Dummy(name, integer=True, nonnegative=True)
        return _DUMMIES[name]
    if name == "t":
        # integration variable: real (sympy's Abs/conjugate rewrite a complex bound symbol of an
        # Integral to re(t) + I*im(t), which is not a legal integration limit)
        return sp.Symbol(name, real=True)
    return sp.Symbol(name)


def _array(name: str):
    from ampform.kinematics.lorentz import FourMomentumSymbol  # noqa: PLC0415

    return FourMomentumSymbol(name, shape=[])


def _direct(label, fn, *args, **kwargs):  # noqa: ARG001
    return fn(*args, **kwargs)


def resolve_extra(key: str, value):
    """JSON value of an ``extra`` entry -> python object handed to the constructor."""
    if key == "phsp_factor":
        return phsp_factors()[value]
    return value


def build(tree, call: Callable = _direct, *, keywords: bool = False):
    """Descriptor -> sympy object.  Library constructors are invoked through
    ``call(label, fn, *args, **kwargs)`` (pass `vp.harness.under_test`).  With
    ``keywords=True`` dataclass-like classes are constructed with keyword arguments."""
    import sympy as sp  # noqa: PLC0415

    op = tree[0]
    if op == "sym":
        return _symbol(tree[1])
    if op == "lsym":
        return _lsymbol(tree[1])
    if op == "idx":
        return _index(tree[1])
    if op == "arr":
        return _array(tree[1])
    if op == "num":
        return sp.Rational(tree[1])
    if op == "flt":
        return sp.Float(tree[1])
    if op == "int":
        return sp.Integer(tree[1])
    if op == "add":
        return build(tree[1], call, keywords=keywords) + build(tree[2], call, keywords=keywords)
    if op == "mul":
        return build(tree[1], call, keywords=keywords) * build(tree[2], call, keywords=keywords)
    if op == "div":
        return build(tree[1], call, keywords=keywords) / build(tree[2], call, keywords=keywords)
    if op == "pow":
        return build(tree[1], call, keywords=keywords) ** tree[2]
    if op == "neg":
        return -build(tree[1], call, keywords=keywords)
    if op == "cls":
        args = [build(a, call, keywords=keywords) for a in tree[2]]
        return build_instance(tree[1], args, tree[3], call, keywords=keywords)
    msg = f"unknown descriptor node {op!r}"
    raise ValueError(msg)


def _py_index(item):
    if item == ":":
        return slice(None)
    if isinstance(item, str) and item.endswith(":"):
        return slice(int(item[:-1]), None)
    return item


def pool_value(v: str):
    """Value of an index pool: a rational, or ``"$name"`` for a scalar symbol (PoolSum sympifies whatever it is
    given, and its ``free_symbols`` count symbols inside the pools)."""
    import sympy as sp  # noqa: PLC0415

    return _symbol(v[1:]) if v.startswith("$") else sp.Rational(v)


def rename_pool_symbols(extra: dict, old: str | None, new: str) -> dict:
    """`extra` of a PoolSum node with the pool symbol `old` replaced by `new`."""
    if old is None or "indices" not in extra or not isinstance(extra["indices"], list):
        return extra
    try:
        return {**extra, "indices": [[n, [f"${new}" if v == f"${old}" else v for v in vals]] for n, vals in extra["indices"]]}
    except (TypeError, ValueError):
        return extra


def build_instance(name: str, args: list, extra: dict, call: Callable = _direct, *, keywords: bool = False):
    cls = discover()[name]
    label = f"{name}()"
    if name == "PoolSum" and "indices" in extra:
        import sympy as sp  # noqa: PLC0415

        indices = [(_index(n), tuple(pool_value(v) for v in vals)) for n, vals in extra["indices"]]
        return call(label, cls, args[0], *indices)
    if name in {"UnevaluatableIntegral", "_SymbolicSum"} and "var" in extra:
        var = _index(extra["var"])
        if name == "_SymbolicSum":
            return call(label, cls, args[0], (var, 0, args[1]))
        return call(label, cls, args[0], (var, args[1], args[2]))
    if name in {"ArraySlice", "ArrayElement"} and "indices" in extra:
        return call(label, cls, args[0], tuple(_py_index(i) for i in extra["indices"]))
    if name == "ArrayAxisSum" and "axis" in extra:
        return call(label, cls, args[0], extra["axis"])
    kwargs = {k: resolve_extra(k, v) for k, v in extra.items()}
    if keywords and dataclasses.is_dataclass(cls):
        fields = sympy_fields(cls)
        if len(fields) == len(args):
            items = [*zip(fields, args), *kwargs.items()]
            if keywords == "reversed":  # keyword arguments in the opposite of the declaration order
                items.reverse()
            return call(label, cls, **dict(items))
    return call(label, cls, *args, **kwargs)


# --------------------------------------------------------------------------- descriptor tools
def walk(tree, path=()):
    """Yield (path, node) for every node of a descriptor (pre-order)."""
    yield path, tree
    op = tree[0]
    if op in {"add", "mul", "div"}:
        yield from walk(tree[1], (*path, 1))
        yield from walk(tree[2], (*path, 2))
    elif op in {"pow", "neg"}:
        yield from walk(tree[1], (*path, 1))
    elif op == "cls":
        for i, arg in enumerate(tree[2]):
            yield from walk(arg, (*path, 2, i))


def get_at(tree, path):
    for p in path:
        tree = tree[p]
    return tree


def replace_at(tree, path, new):
    if not path:
        return new
    copy = list(tree)
    copy[path[0]] = replace_at(tree[path[0]], path[1:], new)
    return copy


def leaves(tree) -> dict[str, list[str]]:
    """Names of the leaf symbols by leaf type: sym | lsym | arr | idx (sorted, unique)."""
    out: dict[str, set] = {"sym": set(), "lsym": set(), "arr": set(), "idx": set()}
    for _, node in walk(tree):
        if node[0] in out:
            out[node[0]].add(node[1])
        if node[0] == "cls":
            for n, vals in node[3].get("indices", []) if node[1] == "PoolSum" else []:
                out["idx"].add(n)
                out["sym"].update(v[1:] for v in vals if isinstance(v, str) and v.startswith("$"))
            if "var" in node[3]:
                out["idx"].add(node[3]["var"])
    return {k: sorted(v) for k, v in out.items()}


def class_nodes(tree) -> list[tuple[tuple, list]]:
    return [(p, n) for p, n in walk(tree) if n[0] == "cls"]


def class_depth(tree) -> int:
    op = tree[0]
    if op in {"add", "mul", "div"}:
        return max(class_depth(tree[1]), class_depth(tree[2]))
    if op in {"pow", "neg"}:
        return class_depth(tree[1])
    if op == "cls":
        return 1 + max([class_depth(a) for a in tree[2]], default=0)
    return 0


def has_nested_class(tree) -> bool:
    return tree[0] == "cls" and any(class_depth(a) > 0 for a in tree[2])


def nondefault_attributes(tree) -> list[str]:
    """Non-sympy attributes with a non-default value anywhere in the tree."""
    out = []
    for _, node in class_nodes(tree):
        cls = discover().get(node[1])
        if cls is None or not dataclasses.is_dataclass(cls):
            continue
        defaults = {f.name: f.default for f in dataclasses.fields(cls)}
        for key, val in node[3].items():
            if key in defaults and resolve_extra(key, val) is not defaults[key] and resolve_extra(key, val) != defaults[key]:
                out.append(f"{node[1]}.{key}")
    return out


# --------------------------------------------------------------------------- structural digest
def attr_repr(value) -> str:
    if inspect.isclass(value):
        return f"{value.__module__}.{value.__qualname__}"
    if inspect.isfunction(value):
        # distinct function objects are distinct values even if module and qualified name agree
        # (closures of one factory): identify the generated ones by their registry key
        for key, fn in _CLOSURES.items():
            if fn is value:
                return f"{value.__module__}.{value.__qualname__}#{key}"
        return f"{value.__module__}.{value.__qualname__}"
    return repr(value)


def structure(obj):
    """Nested-list identity of a sympy object that does not rely on ``__eq__``/``__hash__``
    of the library classes: class names, srepr of the atoms, and for dataclass-like classes
    both ``args`` and every field (non-sympy fields by repr / qualified name)."""
    import sympy as sp  # noqa: PLC0415

    if isinstance(obj, sp.Basic):
        cls = type(obj)
        node: list = [f"{cls.__module__}.{cls.__qualname__}"]
        if not obj.args:
            node.append(sp.srepr(obj))
            return node
        node.append([structure(a) for a in obj.args])
        if dataclasses.is_dataclass(obj):
            fields = []
            for f in dataclasses.fields(obj):
                try:
                    value = getattr(obj, f.name)
                except AttributeError:
                    fields.append([f.name, "<missing>"])
                    continue
                fields.append([f.name, structure(value) if f.metadata.get("sympify") else attr_repr(value)])
            node.append(fields)
        return node
    if isinstance(obj, (tuple, list)):
        return ["<tuple>", [structure(a) for a in obj]]
    return ["<py>", attr_repr(obj)]


def digest(obj) -> str:
    import sympy as sp  # noqa: PLC0415

    payload = json.dumps(structure(obj), separators=(",", ":"))
    try:
        payload += "|" + sp.srepr(obj)
    except Exception as exc:  # noqa: BLE001
        payload += f"|srepr failed: {type(exc).__name__}"
    return hashlib.sha256(payload.encode()).hexdigest()


def library_nodes(expr) -> list:
    """All sub-expressions (pre-order) whose class is defined inside ampform."""
    import sympy as sp  # noqa: PLC0415

    return [n for n in sp.preorder_traversal(expr) if is_library_class(type(n))]


def count_nodes(expr, limit: int = 10**9) -> int:
    import sympy as sp  # noqa: PLC0415

    n = 0
    for _ in sp.preorder_traversal(expr):
        n += 1
        if n >= limit:
            break
    return n


# --------------------------------------------------------------------------- numeric data
def _unit(name: str, salt: str) -> float:
    h = hashlib.sha256(f"{name}|{salt}".encode()).digest()
    return int.from_bytes(h[:8], "big") / 2**64


def exact_point(names: dict[str, list[str]], index: int) -> dict:
    """Deterministic exact values (sympy Rationals / Integers) for the scalar and L symbols."""
    import sympy as sp  # noqa: PLC0415

    point = {}
    for name in names.get("sym", []):
        u = _unit(name, f"pt{index}")
        value = sp.Rational(30 + int(u * 270), 100) + sp.Rational(1, 97 + index)  # (0.3, 3.0)
        tag = symbol_tag(name)
        if tag in {"", "real"} and _unit(name, f"sign{index}") < 0.3:  # noqa: PLR2004
            value = -value
        if name in BETA_SYMBOLS:
            value = sp.Rational(int(u * 160) - 80, 100) + sp.Rational(1, 997)
        point[_symbol(name)] = value
    for name in names.get("lsym", []):
        point[_lsymbol(name)] = sp.Integer(int(_unit(name, f"pt{index}") * 3))
    return point


def batch_data(names: dict[str, list[str]], seed: int, n_events: int = 4) -> dict[str, Any]:
    """Deterministic numpy input per leaf symbol name: physical (time-like, E>0)
    four-momenta for array symbols, positive reals for scalars (|.|<0.9 for velocities),
    python ints for angular-momentum symbols."""
    import numpy as np  # noqa: PLC0415

    data: dict[str, Any] = {}
    for name in names.get("arr", []):
        rng = np.random.default_rng([seed, int(hashlib.sha256(name.encode()).hexdigest()[:8], 16)])
        three = rng.normal(scale=0.8, size=(n_events, 3))
        mass = rng.uniform(0.2, 1.5, size=n_events)
        energy = np.sqrt(mass**2 + (three**2).sum(axis=1))
        data[name] = np.concatenate([energy[:, None], three], axis=1)
    for name in names.get("sym", []):
        rng = np.random.default_rng([seed, int(hashlib.sha256(name.encode()).hexdigest()[:8], 16)])
        if name in BETA_SYMBOLS:
            data[name] = rng.uniform(-0.9, 0.9, size=n_events)
        elif symbol_tag(name) == "real":
            data[name] = rng.uniform(-2.5, 2.5, size=n_events)
        else:
            data[name] = rng.uniform(0.3, 3.0, size=n_events)
    for name in names.get("lsym", []):
        data[name] = int(_unit(name, f"batch{seed}") * 3)
    return data


def leaf_symbols_of(names: dict[str, list[str]]) -> list:
    """The sympy symbols to use as lambdify arguments (array symbols print by name)."""
    import sympy as sp  # noqa: PLC0415

    out = [sp.Symbol(n) if n not in ALL_SYMBOLS else _symbol(n) for n in names.get("sym", [])]
    out += [_lsymbol(n) for n in names.get("lsym", [])]
    out += [_array(n) for n in names.get("arr", [])]
    return out


def leaf_names_of_expr(expr) -> dict[str, list[str]]:
    """Classify the free symbols of a built expression by the name pools (used after a
    substitution introduced symbols that are not in the descriptor)."""
    import sympy as sp  # noqa: PLC0415
    from sympy.tensor.array.expressions.array_expressions import ArraySymbol  # noqa: PLC0415

    nodes = [n for n in sp.preorder_traversal(expr) if isinstance(n, sp.Basic)]
    arrays = {str(a.name) for a in nodes if isinstance(a, ArraySymbol)}
    out: dict[str, set] = {"sym": set(), "lsym": set(), "arr": set(arrays), "idx": set()}
    try:
        free = expr.free_symbols
    except AttributeError:  # a Python None inside .args (ArrayAxisSum(axis=None))
        free = {n for n in nodes if isinstance(n, sp.Symbol)}
    for s in free:
        name = str(s)
        if not isinstance(s, sp.Symbol) or name in arrays:
            continue
        if name in L_SYMBOLS:
            out["lsym"].add(name)
        elif name in INDEX_SYMBOLS and name not in ALL_SYMBOLS:
            out["idx"].add(name)
        else:
            out["sym"].add(name)
    return {k: sorted(v) for k, v in out.items()}


# --------------------------------------------------------------------------- strategies
def _st():
    from hypothesis import strategies as st  # noqa: PLC0415

    return st


def _scalar_leaf():
    st = _st()
    sym = st.sampled_from(sorted(SCALAR_SYMBOLS)).map(lambda n: ["sym", n])
    num = st.one_of(
        st.sampled_from(NUMS).map(lambda n: ["num", n]),
        st.sampled_from(FLOATS).map(lambda v: ["flt", v]),
    )
    arith = st.one_of(
        st.tuples(st.just("add"), sym, st.one_of(sym, num)).map(list),
        st.tuples(st.just("mul"), st.one_of(sym, num), sym).map(list),
        st.tuples(st.just("pow"), sym, st.just(2)).map(list),
    )
    return sym, num, arith


@functools.lru_cache(maxsize=None)
def of_kind(kind: str, depth: int, leaf_weight: int = 2):
    """Strategy of descriptor trees of the given kind with at most `depth` nested levels of
    library classes; a nested instance is drawn with probability 1/(leaf_weight+1)."""
    st = _st()
    sym, num, arith = _scalar_leaf()
    arr = st.sampled_from(ARRAY_SYMBOLS).map(lambda n: ["arr", n])
    nested = _nested(kind, depth)

    def mix(*leaf_strategies):
        if nested is None:
            return st.one_of(*leaf_strategies)
        leaf = st.one_of(*leaf_strategies)
        return st.one_of(*([leaf] * leaf_weight), nested)

    if kind in {"scalar", "cscalar"}:
        return mix(sym, st.one_of(num, arith))
    if kind == "nonnum":
        return mix(sym, arith)
    if kind == "L":
        return st.one_of(
            st.integers(0, 4).map(lambda v: ["int", v]),
            st.integers(0, 2).map(lambda v: ["int", v]),
            st.integers(1, 3).map(lambda v: ["int", v]),
            st.sampled_from(L_SYMBOLS[:2]).map(lambda n: ["lsym", n]),
        )
    if kind in {"p4"}:
        return mix(arr)
    if kind == "arrsym":
        return arr
    if kind == "ev":
        ev_sym = st.sampled_from(sorted(EV_SYMBOLS)).map(lambda n: ["sym", n])
        if nested is None:
            return st.one_of(ev_sym, arr.map(lambda a: ["cls", "Energy", [a], {}]))
        return st.one_of(*([ev_sym] * max(1, leaf_weight - 1)), nested, nested.map(lambda t: ["neg", t]))
    if kind == "beta":
        b_sym = st.sampled_from(sorted(BETA_SYMBOLS)).map(lambda n: ["sym", n])
        p4 = of_kind("p4", max(depth - 2, 0)) if depth >= 2 else arr  # noqa: PLR2004
        return st.one_of(b_sym, b_sym, p4.map(beta_of))
    if kind == "v3":
        base = arr.map(lambda a: ["cls", "ThreeMomentum", [a], {}]) if depth <= 0 or nested is None else nested
        # compound vector arguments (a sum of two vectors, a scaled vector): printers that paste the code of
        # an argument into a larger string have to parenthesise it
        return st.one_of(
            base, base, base,
            st.tuples(base, arr).map(lambda t: ["add", t[0], ["cls", "ThreeMomentum", [t[1]], {}]]),
            base.map(lambda t: ["mul", ["num", "2"], t]),
        )
    if kind == "v3sq":
        return of_kind("v3", depth).map(lambda t: ["pow", t, 2])
    if kind == "n":
        return arr.map(lambda a: ["cls", "ArraySize", [a], {}])
    if kind in {"ones", "zeros"}:
        name = "_OnesArray" if kind == "ones" else "_ZerosArray"
        return of_kind("n", 0).map(lambda t: ["cls", name, [t], {}])
    if kind == "mat":
        if depth <= 0:
            return st.one_of(
                arr.map(lambda a: ["cls", "BoostMatrix", [a], {}]),
                arr.map(lambda a: ["cls", "MinkowskiMetric", [a], {}]),
                st.tuples(st.sampled_from(sorted(BETA_SYMBOLS)), arr).map(
                    lambda t: ["cls", "BoostZMatrix", [["sym", t[0]], ["cls", "ArraySize", [t[1]], {}]], {}]
                ),
                st.tuples(st.sampled_from(["RotationYMatrix", "RotationZMatrix"]), st.sampled_from(sorted(EV_SYMBOLS)), arr).map(
                    lambda t: ["cls", t[0], [["sym", t[1]], ["cls", "ArraySize", [t[2]], {}]], {}]
                ),
            )
        return nested
    if kind == "lo":
        return st.sampled_from(["0", "1/2"]).map(lambda n: ["num", n])
    if kind == "hi":
        return st.sampled_from(["1", "2"]).map(lambda n: ["num", n])
    if kind in {"poolbody1", "poolbody2", "intbody", "sumbody"}:
        inner = of_kind("scalar", max(depth, 0))
        idx = {"poolbody1": "i", "poolbody2": "i", "intbody": "t", "sumbody": "k"}[kind]
        if kind == "poolbody2":
            return st.tuples(inner, sym).map(
                lambda t: ["add", ["mul", ["idx", "i"], t[0]], ["mul", t[1], ["pow", ["idx", "j"], 2]]]
            )
        if kind == "sumbody":
            return st.tuples(sym, inner).map(lambda t: ["mul", ["add", ["idx", idx], t[0]], t[1]])
        if kind == "intbody":
            return st.one_of(
                st.tuples(inner, st.one_of(sym, num)).map(
                    lambda t: ["add", ["mul", ["idx", "t"], t[0]], ["mul", t[1], ["pow", ["idx", "t"], 2]]]
                ),
                # the integration variable occurs in a repeated sub-expression (what cse looks for)
                st.tuples(inner, num).map(
                    lambda t: ["div", ["add", ["pow", ["idx", "t"], 2], t[0]], ["add", ["pow", ["idx", "t"], 2], t[1]]]
                ),
            )
        return st.tuples(inner, st.one_of(sym, num)).map(
            lambda t: ["add", ["mul", ["idx", idx], t[0]], ["mul", t[1], ["pow", ["idx", idx], 2]]]
        )
    if kind == "pool1":
        return _pool().map(lambda p: [["i", p]])
    if kind == "pool2":
        return st.tuples(_pool(), _pool()).map(lambda t: [["i", t[0]], ["j", t[1]]])
    msg = f"unknown kind {kind!r}"
    raise ValueError(msg)


def _pool():
    st = _st()
    # (no 0: a vanishing sum as `s` or a mass makes everything downstream singular; C18 covers pools)
    value = st.sampled_from(["1", "-1", "2", "1/2", "-1/2", "3"] * 3 + (["$y", "$z"] if SYMBOLIC_POOL_VALUES else []))
    return st.lists(value, min_size=1, max_size=3)


def beta_of(p4_tree):
    return [
        "div",
        ["cls", "EuclideanNorm", [["cls", "ThreeMomentum", [p4_tree], {}]], {}],
        ["cls", "Energy", [p4_tree], {}],
    ]


RETURN_ALIASES = {"nonnum": "scalar"}
# scalar arguments may also be event-wise library expressions (InvariantMass(p)**2 as `s`)
CROSS_KIND = {"scalar": ("ev",), "nonnum": ("ev",), "cscalar": ("ev",)}


def _providers(kind: str) -> tuple[list[str], list[str]]:
    """(classes whose value has this kind, classes of a compatible other kind that are mixed in
    with low weight)"""
    want = RETURN_ALIASES.get(kind, kind)
    main, cross = [], []
    for name, rec in recipes().items():
        returns = {v[2] for v in rec.variants} if rec.source == "custom" else {rec.returns}
        if rec.source == "generic":
            continue  # unknown classes are only generated at top level
        if want in returns or (want == "scalar" and name in POLYNOMIAL):
            main.append(name)
        elif want == "cscalar" and "scalar" in returns:
            main.append(name)
        elif any(k in returns for k in CROSS_KIND.get(kind, ())):
            cross.append(name)
    return main, cross


def _returns_for(name: str, want: str) -> str | None:
    """The ``returns`` argument of `instance` that makes class `name` deliver kind `want`."""
    rec = recipes()[name]
    if rec.source == "custom":
        available = {v[2] for v in rec.variants}
        return want if want in available else ("scalar" if "scalar" in available else None)
    if name in POLYNOMIAL:
        return want  # "scalar": real arguments; "cscalar": complex arguments allowed
    return None


def _nested(kind: str, depth: int):
    if depth <= 0:
        return None
    st = _st()
    main, cross = _providers(kind)
    want = RETURN_ALIASES.get(kind, kind)
    sizes = size_model()
    options = []
    for n in main:
        # classes whose unfolded form is large (BoostMatrix: 660 nodes) are nested less often
        weight = 1 if sizes.get(n, (0,))[0] > 300 else 3  # noqa: PLR2004  (own size, arguments excluded)
        options += [instance(n, depth, returns=_returns_for(n, want))] * weight
    if not options:
        return None
    strat = st.one_of(*options)
    if cross:
        crossed = st.one_of(*[instance(n, depth, returns=CROSS_KIND[kind][0]) for n in cross])
        strat = st.one_of(strat, strat, strat, crossed)
    return strat


def _arg_depth(name: str, i: int, depth: int) -> int:
    """Nesting depth left for argument `i`: an argument that the unfolded form repeats 10 times
    or more (BoostMatrix: 42, EqualMassPhaseSpaceFactor: 20) is nested at most one level."""
    mults = size_model().get(name, (0, ()))[1]
    mult = mults[i] if i < len(mults) else 1
    if name in {"MatrixMultiplication", "ArrayMultiplication"}:
        mult = 10  # every factor may be a BoostMatrix (660 nodes): keep the factors shallow
    return min(depth - 1, 1) if mult >= 10 else depth - 1  # noqa: PLR2004


def _extra_strategy(name: str):
    """Strategy of the ``extra`` dict (non-sympy attributes) of a dataclass-like class."""
    st = _st()
    cls = discover()[name]
    parts = {}
    for f in dataclasses.fields(cls) if dataclasses.is_dataclass(cls) else []:
        if f.metadata.get("sympify"):
            continue
        if f.name == "name":
            parts[f.name] = st.sampled_from(NAMES)
        elif f.name == "phsp_factor":
            names = sorted(phsp_factors())
            parts[f.name] = st.sampled_from(names + [n for n in names if n.startswith("closure_phsp_")] * 2)
        elif f.default is not dataclasses.MISSING:
            continue  # unknown non-sympy field with a default: leave the default
        else:
            return None  # cannot supply a legal value
    return st.fixed_dictionaries(parts)


@functools.lru_cache(maxsize=None)
def instance(name: str, depth: int, returns: str | None = None):
    """Strategy of ``["cls", name, args, extra]`` with arguments nested up to ``depth - 1``."""
    st = _st()
    rec = recipes()[name]
    if rec.source == "custom":
        variants = [v for v in rec.variants if returns is None or v[2] == returns]
        options = []
        for kinds, extra, _ret in variants:
            arg_strats = [of_kind(k, _arg_depth(name, i, depth), max(2, len(kinds))) for i, k in enumerate(kinds)]
            extra_strats = {
                k: (of_kind(v, 0) if isinstance(v, str) and v.startswith("pool") else st.just(v))
                for k, v in extra.items()
            }
            options.append(
                st.tuples(st.tuples(*arg_strats), st.fixed_dictionaries(extra_strats)).map(
                    lambda t, name=name: ["cls", name, list(t[0]), t[1]]
                )
            )
        return st.one_of(*options)
    extra = _extra_strategy(name)
    if extra is None:
        return st.nothing()
    kinds = rec.kinds
    if name in POLYNOMIAL and returns == "scalar":
        kinds = tuple("scalar" if k == "cscalar" else k for k in kinds)
    arg_strats = [of_kind(k, _arg_depth(name, i, depth), max(2, len(kinds))) for i, k in enumerate(kinds)]
    return st.tuples(st.tuples(*arg_strats), extra).map(lambda t: ["cls", name, list(t[0]), t[1]])


def instantiable() -> list[str]:
    return [n for n in recipes() if _minimal(n) is not None]


def top_level_names(part: int | None = None, parts: int = 1) -> list[str]:
    """Instantiable classes; with `part`, the classes ``names[part::parts]`` (each shard of a
    check takes its own slice so that every class gets its share of the budget whatever
    Hypothesis' internal preferences are). Never empty."""
    names = [n for n in recipes() if not instance(n, 1).is_empty]
    if part is None or parts <= 1:
        return names
    # classes with non-sympy fields first, so that they are spread over the shards
    names = sorted(names, key=lambda n: (not nonsympy_fields(discover()[n]), n))
    return names[part % parts :: parts] or names


def instances(max_depth: int = 3, max_size: int | None = 2500, names: list[str] | None = None):
    """Top-level strategy: class drawn uniformly from `names` (default: all; classes with
    non-sympy fields -- the ones that get the decorator's own subs/xreplace -- count three times),
    arguments nested up to `max_depth`; trees whose *estimated* unfolded size exceeds
    `max_size` nodes are rejected (a ``BoostMatrix`` mentions its argument 42 times, so nesting
    multiplies quickly)."""
    st = _st()
    if names is None:
        names = top_level_names()
    options = []
    for n in names:
        options += [instance(n, max_depth)] * (3 if nonsympy_fields(discover()[n]) else 1)
    strat = st.one_of(*options)
    if max_size is None:
        return strat

    # not `strat.filter(...)`: when a filter fails repeatedly Hypothesis formats the repr of the
    # whole strategy graph into its message (gigabytes here); `assume` in a composite does not
    @st.composite
    def bounded(draw):
        from hypothesis import assume  # noqa: PLC0415

        tree = draw(strat)
        assume(estimated_size(tree) <= max_size)
        return tree

    return bounded()


# --------------------------------------------------------------------------- size model
@functools.lru_cache(maxsize=1)
def size_model() -> dict[str, tuple[int, tuple[int, ...]]]:
    """class -> (node count of the unfolded minimal instance, how often each argument occurs
    in it). Measured on the code under test (about 1.5 s), so it follows the library."""
    import sympy as sp  # noqa: PLC0415

    out = {}
    for name in recipes():
        desc = _minimal(name)
        if desc is None:
            continue
        try:
            total = count_nodes(build(desc).doit())
        except Exception:  # noqa: BLE001
            continue
        mults = []
        own = total
        for i, arg in enumerate(desc[2]):
            paths = [p for p, n in walk(arg) if n[0] in {"sym", "arr"}]
            if not paths:
                mults.append(1)
                own -= 1
                continue
            marker = ["arr", "pnohit"] if get_at(arg, paths[0])[0] == "arr" else ["sym", "nohit"]
            try:
                marked = replace_at(arg, paths[0], marker)
                obj = build(marker)
                arg_unfolded = build(marked)
                arg_unfolded = arg_unfolded.doit() if hasattr(arg_unfolded, "doit") else arg_unfolded
                inside = max(1, sum(1 for n in sp.preorder_traversal(arg_unfolded) if n == obj))
                unfolded = build(replace_at(desc, (2, i), marked)).doit()
                count = sum(1 for n in sp.preorder_traversal(unfolded) if n == obj)
                mult = max(1, round(count / inside))
                own -= mult * count_nodes(arg_unfolded)
            except Exception:  # noqa: BLE001
                mult = 3
            mults.append(mult)
        total = max(1, own)
        out[name] = (total, tuple(mults))
    return out


def estimated_size(tree) -> int:
    """Rough node count of ``build(tree).doit()`` without building anything."""
    op = tree[0]
    if op in {"add", "mul", "div"}:
        return 1 + estimated_size(tree[1]) + estimated_size(tree[2])
    if op in {"pow", "neg"}:
        return 2 + estimated_size(tree[1])
    if op != "cls":
        return 1
    base, mults = size_model().get(tree[1], (10, ()))
    total = base
    boost = 1.0
    if "phsp_factor" in tree[3]:
        # the model was measured with the default phase-space factor (PhaseSpaceFactor: every
        # argument twice); PhaseSpaceFactorSWave repeats them 9, EqualMassPhaseSpaceFactor 20 times
        other = size_model().get(tree[3]["phsp_factor"], (10, (2,)))
        boost = max(1.0, max(other[1], default=2) / 2)
        total += 2 * other[0]
    for i, arg in enumerate(tree[2]):
        total += int(boost * (mults[i] if i < len(mults) else 3)) * estimated_size(arg)
    factor = 1
    if tree[1] == "PoolSum":
        for _, vals in tree[3].get("indices", []):
            factor *= len(vals)
    for arg in tree[2]:
        if tree[1] in {"FormFactor", "BlattWeisskopfSquared", "SphericalHankel1", "EnergyDependentWidth"}:
            if arg[0] == "int":
                factor *= max(1, arg[1])  # the polynomial Blatt-Weisskopf form grows linearly with L
            elif arg[0] == "lsym":
                factor *= 9  # symbolic L: Hankel-function form
    return total * factor


# --------------------------------------------------------------------------- inventory
_MINIMAL_LEAF = {
    "scalar": ["sym", "x"], "cscalar": ["sym", "x"], "nonnum": ["sym", "x"], "L": ["int", 1], "p4": ["arr", "p0"], "arrsym": ["arr", "p0"],
    "ev": ["sym", "e1"], "beta": ["sym", "b1"], "lo": ["num", "0"], "hi": ["num", "1"],
    "v3": ["cls", "ThreeMomentum", [["arr", "p0"]], {}],
    "v3sq": ["pow", ["cls", "ThreeMomentum", [["arr", "p0"]], {}], 2],
    "n": ["cls", "ArraySize", [["arr", "p0"]], {}],
    "ones": ["cls", "_OnesArray", [["cls", "ArraySize", [["arr", "p0"]], {}]], {}],
    "zeros": ["cls", "_ZerosArray", [["cls", "ArraySize", [["arr", "p0"]], {}]], {}],
    "mat": ["cls", "BoostMatrix", [["arr", "p0"]], {}],
    "poolbody1": ["mul", ["idx", "i"], ["sym", "x"]],
    "poolbody2": ["add", ["mul", ["idx", "i"], ["sym", "x"]], ["idx", "j"]],
    "intbody": ["mul", ["idx", "t"], ["sym", "x"]],
    "sumbody": ["mul", ["idx", "k"], ["sym", "x"]],
    "pool1": [["i", ["1", "2"]]],
    "pool2": [["i", ["1", "2"]], ["j", ["0", "1"]]],
}


def _minimal(name: str):
    """Smallest descriptor of a class (no Hypothesis), or None."""
    rec = recipes().get(name)
    if rec is None:
        return None
    if rec.source == "custom":
        kinds, extra, _ = rec.variants[0]
        extra = {k: (_MINIMAL_LEAF[v] if isinstance(v, str) and v in _MINIMAL_LEAF else v) for k, v in extra.items()}
        return ["cls", name, [_MINIMAL_LEAF[k] for k in kinds], extra]
    cls = discover()[name]
    extra = {}
    for f in dataclasses.fields(cls) if dataclasses.is_dataclass(cls) else []:
        if f.metadata.get("sympify"):
            continue
        if f.name == "name":
            extra["name"] = None
        elif f.name == "phsp_factor":
            extra["phsp_factor"] = "PhaseSpaceFactor"
        elif f.default is dataclasses.MISSING:
            return None
    return ["cls", name, [_MINIMAL_LEAF[k] for k in rec.kinds], extra]


def inventory() -> dict[str, dict]:
    """For every discovered class: recipe source and whether a minimal instance builds.

    status: ``ok`` | ``abstract`` (documented in `ABSTRACT`) | ``failed`` (with the reason)."""
    out = {}
    recs = recipes()
    for name, cls in discover().items():
        entry = {"module": cls.__module__, "dataclass": dataclasses.is_dataclass(cls)}
        if name in ABSTRACT:
            entry.update(status="abstract", recipe="none", reason=ABSTRACT[name])
        else:
            rec = recs[name]
            entry["recipe"] = rec.source
            desc = _minimal(name)
            if desc is None:
                entry.update(status="failed", reason="no legal value known for a non-sympy field without default")
            else:
                try:
                    obj = build(desc)
                    if isinstance(obj, cls):
                        entry.update(status="ok")
                    else:
                        entry.update(status="failed", reason=f"constructor returned {type(obj).__name__}")
                except Exception as exc:  # noqa: BLE001
                    entry.update(status="failed", reason=f"{type(exc).__name__}: {exc}"[:200])
        out[name] = entry
    return out
